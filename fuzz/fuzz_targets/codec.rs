//! libFuzzer target for C17: coverage-guided search over the on-disk decoders with the semantic
//! oracle of the proptest check inside the target (reference decoders, no panic, allocation bound).
#![no_main]
use libfuzzer_sys::fuzz_target;

#[global_allocator]
static ALLOC: anydb_verif::props::c17::CountingAlloc = anydb_verif::props::c17::CountingAlloc;

fuzz_target!(|data: &[u8]| {
    if let Err(m) = anydb_verif::props::c17::fuzz_one(data) {
        panic!("C17 oracle: {m}");
    }
});
