//! Scratch directories on tmpfs (fallback: $TMPDIR). Removed on drop.
use std::path::{Path, PathBuf};
use std::sync::atomic::{AtomicU64, Ordering};

static COUNTER: AtomicU64 = AtomicU64::new(0);

pub fn base() -> PathBuf {
    let root = if Path::new("/dev/shm").is_dir() {
        PathBuf::from("/dev/shm")
    } else {
        std::env::temp_dir()
    };
    root.join(format!("anydb-verif-{}", std::process::id()))
}

pub struct Scratch(PathBuf);

impl Scratch {
    pub fn new(tag: &str) -> Self {
        let n = COUNTER.fetch_add(1, Ordering::Relaxed);
        let p = base().join(format!("{tag}-{n}"));
        let _ = std::fs::remove_dir_all(&p);
        std::fs::create_dir_all(&p).expect("create scratch dir");
        Scratch(p)
    }
    pub fn path(&self) -> &Path {
        &self.0
    }
}

impl Drop for Scratch {
    fn drop(&mut self) {
        let _ = std::fs::remove_dir_all(&self.0);
    }
}

pub fn cleanup_all() {
    let _ = std::fs::remove_dir_all(base());
}
