//! Shared machinery: tiers, seeds, the proptest driver, worker fan-out,
//! evidence writer, known-findings handling, scratch directories, panic capture.

pub mod kf;
pub mod runner;
pub mod tmp;

use std::collections::{BTreeMap, BTreeSet};

use serde::{Deserialize, Serialize};

#[derive(Clone, Copy, Debug, PartialEq, Eq, Serialize, Deserialize)]
pub enum Tier {
    Quick,
    Thorough,
}

impl Tier {
    pub fn name(self) -> &'static str {
        match self {
            Tier::Quick => "quick",
            Tier::Thorough => "thorough",
        }
    }
    pub fn pick<T>(self, quick: T, thorough: T) -> T {
        match self {
            Tier::Quick => quick,
            Tier::Thorough => thorough,
        }
    }
}

/// Per-case observer: the interpreter reports what the case exercised.
#[derive(Default, Debug)]
pub struct Obs {
    pub nontrivial: bool,
    pub labels: BTreeSet<&'static str>,
    /// numeric counters (summed over cases)
    pub counters: BTreeMap<&'static str, u64>,
    /// cases / ops excluded because of a known finding (by finding id)
    pub excluded: BTreeMap<String, u64>,
}

impl Obs {
    pub fn label(&mut self, l: &'static str) {
        self.labels.insert(l);
    }
    pub fn has(&self, l: &'static str) -> bool {
        self.labels.contains(l)
    }
    pub fn count(&mut self, k: &'static str, n: u64) {
        *self.counters.entry(k).or_insert(0) += n;
    }
    pub fn exclude(&mut self, id: &str) {
        *self.excluded.entry(id.to_string()).or_insert(0) += 1;
    }
    pub fn set_nontrivial(&mut self) {
        self.nontrivial = true;
    }
}

pub fn splitmix64(mut x: u64) -> u64 {
    x = x.wrapping_add(0x9E37_79B9_7F4A_7C15);
    let mut z = x;
    z = (z ^ (z >> 30)).wrapping_mul(0xBF58_476D_1CE4_E5B9);
    z = (z ^ (z >> 27)).wrapping_mul(0x94D0_49BB_1331_11EB);
    z ^ (z >> 31)
}

pub fn fnv64(bytes: &[u8]) -> u64 {
    let mut h: u64 = 0xcbf29ce484222325;
    for &b in bytes {
        h ^= b as u64;
        h = h.wrapping_mul(0x100000001b3);
    }
    h
}

pub fn mix_seed(seed: u64, id: &str, worker: u32) -> u64 {
    splitmix64(seed ^ splitmix64(fnv64(id.as_bytes()) ^ ((worker as u64) << 48)))
}

/// Monotone mapping of a u16 rank onto 0..n (n>0). Shrinks toward 0.
#[inline]
pub fn rank(r: u16, n: usize) -> usize {
    debug_assert!(n > 0);
    ((r as usize) * n) >> 16
}

/// Monotone mapping of a u16 onto 0..=n.
#[inline]
pub fn frac(r: u16, n: usize) -> usize {
    if r == u16::MAX {
        n
    } else {
        ((r as u128 * (n as u128 + 1)) >> 16) as usize
    }
}

/// Deterministic pattern byte: depends on pattern id and absolute position so
/// misplaced bytes are visible.
#[inline]
pub fn pat_byte(pat: u8, pos: usize) -> u8 {
    let x = (pos as u64)
        .wrapping_mul(0x9E37_79B9_7F4A_7C15)
        .wrapping_add((pat as u64).wrapping_mul(0xD6E8_FEB8_6659_FD93));
    let b = (x >> 56) as u8 ^ (x >> 23) as u8 ^ pat;
    // never produce 0 so "zero filled" is distinguishable from data
    if b == 0 { pat | 1 } else { b }
}

pub fn pat_bytes(pat: u8, base: usize, len: usize) -> Vec<u8> {
    (0..len).map(|i| pat_byte(pat, base + i)).collect()
}

pub fn verif_root() -> std::path::PathBuf {
    if let Ok(p) = std::env::var("VERIF_ROOT") {
        return p.into();
    }
    "/verif".into()
}
