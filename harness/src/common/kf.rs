//! Known findings: committed file /verif/known_findings.json, never written at
//! run time. `active(id)` tells generators/oracles to exclude a known trigger;
//! strict mode (witness replays, --replay) disables every exclusion.
use std::sync::OnceLock;
use std::sync::atomic::{AtomicBool, Ordering};

use serde::{Deserialize, Serialize};

#[derive(Clone, Debug, Serialize, Deserialize)]
pub struct Finding {
    pub id: String,
    /// "known" or "fixed"
    pub status: String,
    pub property: String,
    #[serde(default)]
    pub signature: String,
    pub what: String,
    #[serde(default)]
    pub witness: Option<String>,
    #[serde(default)]
    pub commit: Option<String>,
    /// other properties whose generators must also exclude this trigger
    #[serde(default)]
    pub also_excluded_in: Vec<String>,
}

#[derive(Clone, Debug, Default, Serialize, Deserialize)]
pub struct File {
    #[serde(default)]
    pub findings: Vec<Finding>,
}

static FILE: OnceLock<File> = OnceLock::new();
static STRICT: AtomicBool = AtomicBool::new(false);
/// exclusion switched off for exactly one finding (while its own witness is replayed)
static STRICT_FOR: std::sync::Mutex<Option<String>> = std::sync::Mutex::new(None);

pub fn load() -> &'static File {
    FILE.get_or_init(|| {
        let p = super::verif_root().join("known_findings.json");
        match std::fs::read_to_string(&p) {
            Ok(s) => serde_json::from_str(&s).unwrap_or_else(|e| {
                eprintln!("known_findings.json unreadable: {e}");
                std::process::exit(2);
            }),
            Err(_) => File::default(),
        }
    })
}

pub fn set_strict(on: bool) {
    STRICT.store(on, Ordering::SeqCst);
}

/// Replaying the witness of finding `id`: only that finding's exclusion is lifted, so that the
/// witness of one finding is not failed by another listed finding that shares its history.
pub fn set_strict_for(id: Option<&str>) {
    *STRICT_FOR.lock().unwrap() = id.map(|s| s.to_string());
}

pub fn strict() -> bool {
    STRICT.load(Ordering::SeqCst)
}

/// True when the finding is listed as *known* (not fixed) and exclusions are on.
pub fn active(id: &str) -> bool {
    if strict() || STRICT_FOR.lock().unwrap().as_deref() == Some(id) {
        return false;
    }
    load()
        .findings
        .iter()
        .any(|f| f.id == id && f.status == "known")
}

pub fn for_property(prop: &str) -> Vec<&'static Finding> {
    load()
        .findings
        .iter()
        .filter(|f| f.property == prop)
        .collect()
}
