//! proptest driver with process fan-out, shrinking, replay files, evidence.

use std::cell::RefCell;
use std::collections::{BTreeMap, BTreeSet};
use std::fmt::Debug;
use std::panic::{AssertUnwindSafe, catch_unwind};
use std::path::PathBuf;
use std::time::{Duration, Instant};

use proptest::strategy::BoxedStrategy;
use proptest::test_runner::{Config, RngSeed, TestCaseError, TestError, TestRunner};
use serde::de::DeserializeOwned;
use serde::{Deserialize, Serialize};
use serde_json::{Value, json};

use super::{Obs, Tier, kf, mix_seed, verif_root};

pub trait Prop {
    type Case: Debug + Clone + Serialize + DeserializeOwned + 'static;
    const ID: &'static str;
    const ENGINE: &'static str;
    /// "exploration" | "fault_enumeration"
    const LEVEL: &'static str = "exploration";

    /// total number of generated cases for the tier (split over workers)
    fn cases(tier: Tier) -> u32;
    fn strategy(tier: Tier) -> BoxedStrategy<Self::Case>;
    /// Executes one case against the real code. Err = violation message.
    fn run(case: &Self::Case, obs: &mut Obs) -> Result<(), String>;
    /// generator + non-triviality rule in words
    fn rule() -> String;
    fn mandatory_labels() -> &'static [&'static str] {
        &[]
    }
    fn assumptions() -> Vec<String> {
        vec![]
    }
    /// number of workers for the tier (default: all cores)
    fn workers(_tier: Tier) -> u32 {
        std::thread::available_parallelism()
            .map(|n| n.get() as u32)
            .unwrap_or(4)
            .min(16)
    }
    /// one-time per-process setup (install taps, overrides)
    fn setup() {}
    fn max_shrink_iters(tier: Tier) -> u32 {
        tier.pick(1500, 4000)
    }
}

// ---------------------------------------------------------------- panics

thread_local! {
    static LAST_PANIC: RefCell<Option<String>> = const { RefCell::new(None) };
    static QUIET: RefCell<bool> = const { RefCell::new(false) };
}

pub fn install_panic_hook() {
    let prev = std::panic::take_hook();
    std::panic::set_hook(Box::new(move |info| {
        let msg = if let Some(s) = info.payload().downcast_ref::<&str>() {
            s.to_string()
        } else if let Some(s) = info.payload().downcast_ref::<String>() {
            s.clone()
        } else {
            "<non-string panic>".to_string()
        };
        let loc = info
            .location()
            .map(|l| format!("{}:{}", l.file(), l.line()))
            .unwrap_or_default();
        LAST_PANIC.with(|p| *p.borrow_mut() = Some(format!("{msg} @ {loc}")));
        let quiet = QUIET.with(|q| *q.borrow());
        if !quiet && std::env::var_os("VERIF_LOUD_PANICS").is_some() {
            prev(info);
        }
    }));
}

/// Runs `f`, converting a panic into Err("PANIC: ..").
pub fn guarded<T>(f: impl FnOnce() -> Result<T, String>) -> Result<T, String> {
    LAST_PANIC.with(|p| *p.borrow_mut() = None);
    match catch_unwind(AssertUnwindSafe(f)) {
        Ok(r) => r,
        Err(_) => {
            let m = LAST_PANIC
                .with(|p| p.borrow_mut().take())
                .unwrap_or_else(|| "<panic in another thread>".into());
            Err(format!("PANIC: {m}"))
        }
    }
}

/// catch a panic from library code and return its message
pub fn catch_panic<T>(f: impl FnOnce() -> T) -> Result<T, String> {
    LAST_PANIC.with(|p| *p.borrow_mut() = None);
    match catch_unwind(AssertUnwindSafe(f)) {
        Ok(r) => Ok(r),
        Err(_) => Err(LAST_PANIC
            .with(|p| p.borrow_mut().take())
            .unwrap_or_else(|| "<panic>".into())),
    }
}

// ---------------------------------------------------------------- args

#[derive(Clone, Debug)]
pub struct Args {
    pub tier: Tier,
    pub seed: u64,
    pub worker: Option<(u32, u32)>,
    pub out: Option<PathBuf>,
    pub replay: Option<PathBuf>,
    pub cases_override: Option<u32>,
}

pub fn parse_args(rest: &[String]) -> Args {
    let mut tier = match std::env::var("VERIF_TIER").as_deref() {
        Ok("thorough") => Tier::Thorough,
        _ => Tier::Quick,
    };
    let mut seed: u64 = std::env::var("VERIF_SEED")
        .ok()
        .and_then(|s| s.trim().parse::<i128>().ok())
        .map(|v| v as u64)
        .unwrap_or(1);
    let mut worker = None;
    let mut out = None;
    let mut replay = None;
    let mut cases_override = std::env::var("VERIF_CASES").ok().and_then(|s| s.parse().ok());
    let mut i = 0;
    while i < rest.len() {
        match rest[i].as_str() {
            "quick" => tier = Tier::Quick,
            "thorough" => tier = Tier::Thorough,
            "--tier" => {
                i += 1;
                tier = if rest[i] == "thorough" { Tier::Thorough } else { Tier::Quick };
            }
            "--seed" => {
                i += 1;
                seed = rest[i].parse::<i128>().map(|v| v as u64).unwrap_or(1);
            }
            "--worker" => {
                i += 1;
                let (a, b) = rest[i].split_once('/').expect("--worker i/n");
                worker = Some((a.parse().unwrap(), b.parse().unwrap()));
            }
            "--out" => {
                i += 1;
                out = Some(PathBuf::from(&rest[i]));
            }
            "--replay" => {
                i += 1;
                replay = Some(PathBuf::from(&rest[i]));
            }
            "--cases" => {
                i += 1;
                cases_override = rest[i].parse().ok();
            }
            other => {
                eprintln!("unknown argument {other}");
                std::process::exit(2);
            }
        }
        i += 1;
    }
    Args { tier, seed, worker, out, replay, cases_override }
}

// ---------------------------------------------------------------- worker

#[derive(Serialize, Deserialize, Default, Debug)]
pub struct WorkerOut {
    pub evaluations: u64,
    pub nontrivial_hashes: Vec<u64>,
    pub labels: BTreeMap<String, u64>,
    pub counters: BTreeMap<String, u64>,
    pub excluded: BTreeMap<String, u64>,
    pub samples: Vec<Value>,
    pub nontrivial_samples: Vec<Value>,
    pub failure: Option<Failure>,
    pub error: Option<String>,
}

#[derive(Serialize, Deserialize, Debug, Clone)]
pub struct Failure {
    pub case: Value,
    pub message: String,
    pub original_message: String,
    pub shrink_runs: u64,
}

fn case_hash<C: Serialize>(c: &C) -> u64 {
    super::fnv64(serde_json::to_string(c).unwrap_or_default().as_bytes())
}

fn truncate_sample(v: Value) -> Value {
    let s = v.to_string();
    if s.len() > 6000 {
        json!({"truncated_json": format!("{}…", &s[..6000]), "full_len": s.len()})
    } else {
        v
    }
}

pub fn run_worker<P: Prop>(args: &Args) -> WorkerOut {
    let (wi, wn) = args.worker.unwrap_or((0, 1));
    let total = args.cases_override.unwrap_or_else(|| P::cases(args.tier));
    let cases = total.div_ceil(wn).max(1);
    let seed = mix_seed(args.seed, P::ID, wi);
    let mut seed_bytes = [0u8; 32];
    for k in 0..4 {
        seed_bytes[k * 8..k * 8 + 8]
            .copy_from_slice(&super::splitmix64(seed.wrapping_add(k as u64)).to_le_bytes());
    }
    let _ = seed_bytes;
    let config = Config {
        cases,
        max_shrink_iters: P::max_shrink_iters(args.tier),
        failure_persistence: None,
        rng_seed: RngSeed::Fixed(seed),
        max_global_rejects: 65536,
        ..Config::default()
    };
    P::setup();
    let mut runner = TestRunner::new(config);
    let strategy = P::strategy(args.tier);

    struct St {
        out: WorkerOut,
        nontrivial: BTreeSet<u64>,
        failed: bool,
        first_message: Option<String>,
        shrink_runs: u64,
        shrink_deadline: Option<Instant>,
    }
    let st = RefCell::new(St {
        out: WorkerOut::default(),
        nontrivial: BTreeSet::new(),
        failed: false,
        first_message: None,
        shrink_runs: 0,
        shrink_deadline: None,
    });
    let shrink_budget = Duration::from_secs(args.tier.pick(120, 600));

    let result = runner.run(&strategy, |case| {
        {
            let mut s = st.borrow_mut();
            if s.failed {
                s.shrink_runs += 1;
                if let Some(d) = s.shrink_deadline
                    && Instant::now() > d
                {
                    // shrink budget exhausted: accept no further simplification
                    return Ok(());
                }
            }
        }
        let mut obs = Obs::default();
        if std::env::var_os("VERIF_TRACE_CASES").is_some() {
            eprintln!("CASE {}", serde_json::to_string(&case).unwrap_or_default());
        }
        let mut r = guarded(|| P::run(&case, &mut obs));
        let mut s = st.borrow_mut();
        // a case the harness could not decide (watchdog, spawn failure): never a violation
        if let Err(m) = &r
            && let Some(why) = m.strip_prefix("INCONCLUSIVE:")
        {
            if s.out.error.is_none() {
                s.out.error = Some(why.trim().to_string());
            }
            r = Ok(());
        }
        if !s.failed {
            s.out.evaluations += 1;
            for l in &obs.labels {
                *s.out.labels.entry(l.to_string()).or_insert(0) += 1;
            }
            for (k, v) in &obs.counters {
                *s.out.counters.entry(k.to_string()).or_insert(0) += v;
            }
            for (k, v) in &obs.excluded {
                *s.out.excluded.entry(k.clone()).or_insert(0) += v;
            }
            if s.out.samples.len() < 2 {
                let v = serde_json::to_value(&case).unwrap_or(Value::Null);
                s.out.samples.push(truncate_sample(v));
            }
            if obs.nontrivial {
                let h = case_hash(&case);
                if s.nontrivial.insert(h) && s.out.nontrivial_samples.len() < 2 {
                    let v = serde_json::to_value(&case).unwrap_or(Value::Null);
                    s.out.nontrivial_samples.push(truncate_sample(v));
                }
            }
        }
        match r {
            Ok(()) => Ok(()),
            Err(m) => {
                if !s.failed {
                    s.failed = true;
                    s.first_message = Some(m.clone());
                    s.shrink_deadline = Some(Instant::now() + shrink_budget);
                }
                Err(TestCaseError::fail(m))
            }
        }
    });

    let mut s = st.into_inner();
    s.out.nontrivial_hashes = s.nontrivial.into_iter().collect();
    match result {
        Ok(()) => {}
        Err(TestError::Fail(reason, case)) => {
            // re-run the minimal case to get its own message
            let mut obs = Obs::default();
            let msg = match guarded(|| P::run(&case, &mut obs)) {
                Err(m) => m,
                Ok(()) => format!("(minimal case passed on re-run; flaky?) {}", reason.message()),
            };
            s.out.failure = Some(Failure {
                case: serde_json::to_value(&case).unwrap_or(Value::Null),
                message: msg,
                original_message: s.first_message.clone().unwrap_or_default(),
                shrink_runs: s.shrink_runs,
            });
        }
        Err(TestError::Abort(reason)) => {
            s.out.error = Some(format!("proptest aborted: {}", reason.message()));
        }
    }
    s.out
}

// ---------------------------------------------------------------- replay

#[derive(Serialize, Deserialize, Debug)]
pub struct ReplayFile {
    pub property: String,
    #[serde(default)]
    pub engine: String,
    #[serde(default)]
    pub seed: u64,
    #[serde(default)]
    pub tier: String,
    #[serde(default)]
    pub profile: String,
    #[serde(default)]
    pub message: String,
    pub case: Value,
}

/// Runs the case stored in `path` directly (no proptest). Ok(()) = passes.
pub fn replay_file<P: Prop>(path: &std::path::Path) -> Result<Result<(), String>, String> {
    let s = std::fs::read_to_string(path).map_err(|e| format!("cannot read {}: {e}", path.display()))?;
    let rf: ReplayFile = serde_json::from_str(&s).map_err(|e| format!("bad replay file: {e}"))?;
    if rf.property != P::ID {
        return Err(format!("replay file is for {} not {}", rf.property, P::ID));
    }
    let case: P::Case =
        serde_json::from_value(rf.case).map_err(|e| format!("bad case in replay file: {e}"))?;
    let mut obs = Obs::default();
    Ok(guarded(|| P::run(&case, &mut obs)))
}

// ---------------------------------------------------------------- main

pub fn main_for<P: Prop>(rest: &[String]) -> i32 {
    let args = parse_args(rest);
    install_panic_hook();

    if let Some(path) = &args.replay {
        // witnesses of recorded findings replay with every exclusion off; a replay file written by
        // a random search replays under the conditions it was found in (exclusions on), so that it
        // reproduces the reported violation and not a listed finding that shares its history
        let path_abs = if path.is_relative() { verif_root().join(path) } else { path.clone() };
        let own = kf::for_property(P::ID).into_iter().find(|f| f.witness.as_ref().is_some_and(|w| verif_root().join(w) == path_abs));
        match own {
            Some(f) => kf::set_strict_for(Some(&f.id)),
            None => kf::set_strict(std::env::var("VERIF_STRICT").is_ok_and(|v| v == "1")),
        }
        P::setup();
        let path = if path.is_relative() { verif_root().join(path) } else { path.clone() };
        return match replay_file::<P>(&path) {
            Err(e) => {
                eprintln!("{e}");
                2
            }
            Ok(Ok(())) => {
                println!("replay {} passed", path.display());
                0
            }
            Ok(Err(m)) if m.starts_with("INCONCLUSIVE:") => {
                eprintln!("{m}");
                2
            }
            Ok(Err(m)) => {
                println!("replay failed: {m}");
                println!("VIOLATION property={} replay={}", P::ID, path.display());
                1
            }
        };
    }

    if args.worker.is_some() {
        let out = run_worker::<P>(&args);
        let s = serde_json::to_string(&out).unwrap();
        match &args.out {
            Some(p) => std::fs::write(p, s).expect("write worker output"),
            None => println!("{s}"),
        }
        super::tmp::cleanup_all();
        return 0;
    }

    // ---- parent
    let t0 = Instant::now();
    let mut known_lines = vec![];
    let mut violations: Vec<(String, String)> = vec![]; // (replay path, message)

    // 1. witnesses of known / fixed findings (each with its own exclusion lifted)
    P::setup();
    let mut witness_report = vec![];
    for f in kf::for_property(P::ID) {
        let Some(w) = &f.witness else { continue };
        let path = verif_root().join(w);
        kf::set_strict_for(Some(&f.id));
        match replay_file::<P>(&path) {
            Err(e) => {
                eprintln!("witness {} unusable: {e}", w);
                witness_report.push(json!({"id": f.id, "status": f.status, "result": "unusable"}));
            }
            Ok(Ok(())) => {
                if f.status == "known" {
                    eprintln!("note: witness of known finding {} no longer fails", f.id);
                }
                witness_report.push(json!({"id": f.id, "status": f.status, "result": "passes"}));
            }
            Ok(Err(m)) => {
                if f.status == "known" {
                    known_lines.push(format!("KNOWN-FINDING: property={} {} {}", P::ID, f.id, f.what));
                } else {
                    violations.push((w.clone(), format!("fixed finding {} is back: {m}", f.id)));
                }
                witness_report.push(json!({"id": f.id, "status": f.status, "result": "fails", "message": m}));
            }
        }
    }
    kf::set_strict_for(None);

    // 2. random search, fanned out
    let n = P::workers(args.tier).max(1);
    let exe = std::env::current_exe().expect("current_exe");
    let outdir = super::tmp::Scratch::new("workers");
    let mut children = vec![];
    for i in 0..n {
        let out = outdir.path().join(format!("w{i}.json"));
        let mut cmd = std::process::Command::new(&exe);
        cmd.arg(P::ID)
            .arg("--worker")
            .arg(format!("{i}/{n}"))
            .arg("--tier")
            .arg(args.tier.name())
            .arg("--seed")
            .arg(args.seed.to_string())
            .arg("--out")
            .arg(&out);
        if let Some(c) = args.cases_override {
            cmd.arg("--cases").arg(c.to_string());
        }
        cmd.env("VERIF_TIER", args.tier.name());
        let child = cmd.spawn().expect("spawn worker");
        children.push((i, child, out));
    }
    let watchdog = Duration::from_secs(
        std::env::var("VERIF_WATCHDOG_S")
            .ok()
            .and_then(|s| s.parse().ok())
            .unwrap_or(args.tier.pick(1500, 6 * 3600)),
    );
    let mut merged = WorkerOut::default();
    let mut all_nontrivial: BTreeSet<u64> = BTreeSet::new();
    let mut inconclusive: Vec<String> = vec![];
    let mut failures: Vec<(u32, Failure)> = vec![];
    for (i, mut child, out) in children {
        let status = loop {
            match child.try_wait() {
                Ok(Some(st)) => break Some(st),
                Ok(None) => {
                    if t0.elapsed() > watchdog {
                        let _ = child.kill();
                        let _ = child.wait();
                        break None;
                    }
                    std::thread::sleep(Duration::from_millis(20));
                }
                Err(_) => break None,
            }
        };
        let pid_dir = format!("/dev/shm/anydb-verif-{}", child.id());
        let _ = std::fs::remove_dir_all(pid_dir);
        match status {
            None => inconclusive.push(format!("worker {i}: watchdog timeout")),
            Some(st) if !st.success() => inconclusive.push(format!("worker {i}: exited with {st}")),
            Some(_) => match std::fs::read_to_string(&out)
                .ok()
                .and_then(|s| serde_json::from_str::<WorkerOut>(&s).ok())
            {
                None => inconclusive.push(format!("worker {i}: no output")),
                Some(w) => {
                    merged.evaluations += w.evaluations;
                    all_nontrivial.extend(w.nontrivial_hashes.iter().copied());
                    for (k, v) in w.labels {
                        *merged.labels.entry(k).or_insert(0) += v;
                    }
                    for (k, v) in w.counters {
                        *merged.counters.entry(k).or_insert(0) += v;
                    }
                    for (k, v) in w.excluded {
                        *merged.excluded.entry(k).or_insert(0) += v;
                    }
                    if merged.samples.len() < 2 {
                        merged.samples.extend(w.samples.into_iter().take(1));
                    }
                    if merged.nontrivial_samples.len() < 3 {
                        merged.nontrivial_samples.extend(w.nontrivial_samples.into_iter().take(1));
                    }
                    if let Some(e) = w.error {
                        inconclusive.push(format!("worker {i}: {e}"));
                    }
                    if let Some(f) = w.failure {
                        failures.push((i, f));
                    }
                }
            },
        }
    }
    drop(outdir);

    // 3. replay files for failures (smallest case first)
    failures.sort_by_key(|(_, f)| f.case.to_string().len());
    let replays = verif_root().join("replays");
    let _ = std::fs::create_dir_all(&replays);
    for (i, f) in &failures {
        let h = super::fnv64(f.case.to_string().as_bytes());
        let name = format!("{}-{}-{:016x}.json", P::ID, args.seed, h);
        let rf = ReplayFile {
            property: P::ID.into(),
            engine: P::ENGINE.into(),
            seed: args.seed,
            tier: args.tier.name().into(),
            profile: if cfg!(debug_assertions) { "checked".into() } else { "release".into() },
            message: f.message.clone(),
            case: f.case.clone(),
        };
        let path = replays.join(&name);
        let _ = std::fs::write(&path, serde_json::to_string_pretty(&rf).unwrap());
        eprintln!(
            "worker {i}: failure after {} shrink runs: {}\n  (first failure: {})",
            f.shrink_runs, f.message, f.original_message
        );
        if violations.iter().any(|(p, _)| p == &format!("replays/{name}")) || violations.len() >= 3 {
            continue;
        }
        violations.push((format!("replays/{name}"), f.message.clone()));
    }

    // 4. evidence
    let missing: Vec<&str> = P::mandatory_labels()
        .iter()
        .copied()
        .filter(|l| merged.labels.get(*l).copied().unwrap_or(0) == 0)
        .collect();
    let mut samples = merged.samples.clone();
    samples.extend(merged.nontrivial_samples.clone());
    if samples.is_empty() {
        samples.push(json!("no case executed"));
    }
    let wall = t0.elapsed().as_secs_f64();
    let evidence = json!({
        "property_id": P::ID,
        "tier": args.tier.name(),
        "seed": (args.seed & (i64::MAX as u64)) as i64,
        "level": P::LEVEL,
        "wall_s": (wall * 100.0).round() / 100.0,
        "violations": violations.len(),
        "assumptions": P::assumptions(),
        "coverage": {
            "evaluations": merged.evaluations,
            "distinct_nontrivial": all_nontrivial.len(),
            "rule": P::rule(),
            "samples": samples,
            "classes": merged.labels,
            "counters": merged.counters,
            "excluded_by_known_finding": merged.excluded,
            "missing_mandatory_classes": missing,
            "workers": n,
            "engine": P::ENGINE,
            "known_finding_witnesses": witness_report,
            "inconclusive": inconclusive,
        }
    });
    let evdir = verif_root().join("evidence");
    let _ = std::fs::create_dir_all(&evdir);
    let evpath = evdir.join(format!("{}.json", P::ID));
    if let Err(e) = std::fs::write(&evpath, serde_json::to_string_pretty(&evidence).unwrap()) {
        eprintln!("cannot write evidence: {e}");
    }

    // 5. report
    for l in &known_lines {
        println!("{l}");
    }
    println!(
        "{} {}: {} cases, {} distinct non-trivial, {:.1}s, {} violation(s)",
        P::ID,
        args.tier.name(),
        merged.evaluations,
        all_nontrivial.len(),
        wall,
        violations.len()
    );
    if !missing.is_empty() {
        eprintln!("warning: mandatory classes never reached: {missing:?}");
    }
    super::tmp::cleanup_all();
    if !violations.is_empty() {
        for (p, m) in &violations {
            eprintln!("violation: {m}");
            println!("VIOLATION property={} replay={}", P::ID, p);
        }
        return 1;
    }
    if !inconclusive.is_empty() {
        for m in &inconclusive {
            eprintln!("inconclusive: {m}");
        }
        return 2;
    }
    0
}
