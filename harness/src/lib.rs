//! anydb_verif: engines and property checks for anydb (rawdb + vecdb); `vcheck` is the driver binary,
//! `fuzz/` holds the libFuzzer target that reuses the codec oracle (C17).
#![allow(clippy::type_complexity)]

pub mod common;
pub mod compute;
pub mod crash;
pub mod props;
pub mod rawmodel;
pub mod sched;
pub mod vecmodel;
