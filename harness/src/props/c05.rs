//! C05 rawdb: a crash never damages untouched flushed regions or the file layout (E2 crash engine).
use proptest::prelude::*;
use proptest::strategy::BoxedStrategy;
use serde::{Deserialize, Serialize};

use crate::common::runner::Prop;
use crate::common::tmp::Scratch;
use crate::common::{Obs, Tier};
use crate::crash::{self, EnumCfg, EnumStats, Ev, OpKind, OpRec, Snap};
use crate::rawmodel::{Checks, OffSel, Op, RawSut, off_sel, snapshot_layout};

#[derive(Clone, Debug, Serialize, Deserialize)]
pub struct Case {
    pub min_len: u32,
    pub ops: Vec<Op>,
    pub seed: u64,
}

/// sizes that keep the number of dirty pages per crash point small but still cross pages,
/// reserves (4 KiB doubling) and force relocations
pub fn crash_size() -> BoxedStrategy<u32> {
    prop_oneof![
        1 => Just(0u32),
        4 => 1u32..=64,
        3 => 4090u32..=4102,
        3 => 4097u32..=12288,
        3 => (0u32..4, -2i32..=2).prop_map(|(k, d)| ((4096u32 << k) as i32 + d) as u32),
        1 => 30_000u32..50_000,
    ]
    .boxed()
}

pub fn crash_op(compact_w: u32) -> BoxedStrategy<Op> {
    let sz = crash_size();
    prop_oneof![
        6 => (0u8..8).prop_map(|name| Op::Create { name }),
        9 => (any::<u16>(), sz.clone(), any::<u8>()).prop_map(|(r, len, pat)| Op::Append { r, len, pat }),
        4 => (any::<u16>(), off_sel(), sz.clone(), any::<u8>()).prop_map(|(r, off, len, pat)| Op::WriteAt { r, off, len, pat }),
        2 => (any::<u16>(), off_sel()).prop_map(|(r, to)| Op::Truncate { r, to }),
        3 => (any::<u16>(), off_sel(), sz.clone(), any::<u8>()).prop_map(|(r, at, len, pat)| Op::TruncateWrite { r, at, len, pat }),
        2 => (any::<u16>(), 0u8..8).prop_map(|(r, name)| Op::Rename { r, name }),
        6 => any::<u16>().prop_map(|r| Op::Remove { r }),
        1 => (any::<u16>(), any::<bool>()).prop_map(|(mask, extra)| Op::Retain { mask, extra }),
        3 => any::<u16>().prop_map(|r| Op::FlushRegion { r }),
        6 => Just(Op::Flush),
        compact_w => Just(Op::Compact),
        1 => Just(Op::Reopen),
        1 => (0u8..12).prop_map(|n| Op::SetMinRegions { n }),
    ]
    .boxed()
}

pub fn prefix_ops() -> BoxedStrategy<Vec<Op>> {
    // a few regions with data, made durable by one completed flush
    prop::collection::vec((0u8..8, crash_size(), any::<u8>()), 2..=5)
        .prop_map(|v| {
            let mut ops = vec![];
            for (i, (name, len, pat)) in v.into_iter().enumerate() {
                ops.push(Op::Create { name });
                // rank of the region just created is unknown: write to a spread of ranks
                ops.push(Op::Append { r: (i as u16).wrapping_mul(13001), len: len.max(1), pat });
            }
            ops.push(Op::Flush);
            ops
        })
        .boxed()
}

pub struct Recorded {
    pub events: Vec<Ev>,
    pub ops: Vec<OpRec>,
}

/// Phase 1: runs the history against the real database with the tap recording.
/// `check` runs after every op with (op, record) for property-specific assertions.
pub fn record(
    min_len: usize,
    ops: &[Op],
    obs: &mut Obs,
    mut check: impl FnMut(&Op, &OpRec, &RawSut) -> Result<(), String>,
) -> Result<Recorded, String> {
    let res: Result<Vec<OpRec>, String> = (|| {
        let mut sut = RawSut::open_hooked(min_len, Checks { contents: true, extents: false, placement_rule: false }, crash::start)?;
        let mut recs: Vec<OpRec> = vec![];
        let empty: Snap = std::rc::Rc::new(Default::default());
        // the open itself (SetLen + Sync for open_with_min_len) is op #0
        recs.push(OpRec {
            kind: OpKind::Other,
            label: format!("open(min_len={min_len})"),
            evt_start: 0,
            evt_end: crash::count(),
            before: empty.clone(),
            after: empty.clone(),
            layout_before: None,
            layout_after: None,
            is_compact: false,
            relocated: false,
            reused_hole: false,
        });
        let mut prev = empty;
        for (i, op) in ops.iter().enumerate() {
            let evt_start = crash::count();
            let layout_before = Some(snapshot_layout(sut.db()));
            let (rel0, reuse0) = (sut.relocations, sut.reuse_of_freed);
            sut.step(op, obs).map_err(|e| format!("op #{i} {op:?}: {e}"))?;
            let after = crash::snap_of(&sut.model, &prev);
            let rec = OpRec {
                kind: if matches!(op, Op::Flush | Op::Compact | Op::Reopen) { OpKind::FlushLike } else { OpKind::Other },
                label: format!("{op:?}"),
                evt_start,
                evt_end: crash::count(),
                before: prev.clone(),
                after: after.clone(),
                layout_before,
                layout_after: Some(snapshot_layout(sut.db())),
                is_compact: matches!(op, Op::Compact),
                relocated: sut.relocations > rel0,
                reused_hole: sut.reuse_of_freed > reuse0,
            };
            check(op, &rec, &sut).map_err(|e| format!("op #{i} {op:?}: {e}"))?;
            recs.push(rec);
            prev = after;
        }
        drop(sut);
        Ok(recs)
    })();
    let events = crash::stop();
    Ok(Recorded { events, ops: res? })
}

pub fn label_stats(st: &EnumStats, obs: &mut Obs) {
    obs.count("crash_points", st.crash_points);
    obs.count("images_opened", st.images);
    obs.count("images_no_writeback", st.images_a);
    obs.count("images_single_page_flip", st.images_flip);
    obs.count("images_random_versions", st.images_random);
    obs.count("untouched_region_comparisons", st.clause3_checks);
    obs.count("sync_only_region_comparisons", st.clause4_checks);
    if st.inside_flush {
        obs.label("crash:inside-flush");
    }
    if st.between_syncs {
        obs.label("crash:between-data-sync-and-metadata-sync");
    }
    if st.after_relocation {
        obs.label("crash:after-relocation");
    }
    if st.after_hole_reuse {
        obs.label("crash:after-reuse-of-freed-extent");
    }
    if st.inside_compact {
        obs.label("crash:inside-compact");
    }
    if st.after_punch_before_sync {
        obs.label("crash:after-punch-before-sync");
    }
    if st.dirty_with_untouched {
        obs.label("crash:dirty-pages-and-untouched-flushed-region");
    }
}

pub struct P;

impl Prop for P {
    type Case = Case;
    const ID: &'static str = "C05";
    const ENGINE: &'static str = "E2-crash";
    const LEVEL: &'static str = "fault_enumeration";

    fn cases(tier: Tier) -> u32 {
        tier.pick(1000, 40000)
    }

    fn strategy(tier: Tier) -> BoxedStrategy<Case> {
        let n = tier.pick(18usize, 40);
        (
            prop_oneof![4 => Just(0u32), 1 => Just(4096u32), 1 => Just(1u32 << 20), 1 => Just((1u32 << 20) + 4097)],
            prefix_ops(),
            prop::collection::vec(crash_op(2), 0..=n),
            any::<u64>(),
        )
            .prop_map(|(min_len, mut ops, tail, seed)| {
                ops.extend(tail);
                Case { min_len, ops, seed }
            })
            .boxed()
    }

    fn run(case: &Case, obs: &mut Obs) -> Result<(), String> {
        let rec = record(case.min_len as usize, &case.ops, obs, |_, _, _| Ok(()))?;
        let img = Scratch::new("img");
        let mut st = EnumStats::default();
        let cfg = EnumCfg { max_flip_pages: 10, random_per_point: 2, seed: case.seed, from_event: 0 };
        let r = crash::enumerate(&rec.events, &rec.ops, &cfg, &img.path().join("db"), &mut st);
        label_stats(&st, obs);
        r?;
        if st.dirty_with_untouched {
            obs.set_nontrivial();
        }
        Ok(())
    }

    fn rule() -> String {
        "proptest histories of rawdb region ops (2-5 regions with data + one completed flush, then create/append/write_at/truncate/truncate_write/rename/remove/retain/region flush/flush/compact/reopen/set_min_regions) run against the real database with the storage tap (H1) recording every mmap write (page contents read back from the file), length change, sync and hole punch. EVERY recorded event index is a crash point; per point the images {nothing written back, everything written back, each single dirty page flipped either way (<=10 pages, all metadata pages first), 2 seeded random per-page version choices} are materialised and opened with Database::open: must open without panic; recovered extents aligned, pairwise disjoint, inside the file; every region not modified since the last completed flush has exactly its flushed name/len/bytes; in the no-write-back image additionally every region not overwritten in place since the metadata file was last synced recovers exactly as it was then, and no other region exists. Non-trivial: history with a crash point after a completed flush with >=1 dirty page and >=1 untouched flushed region.".into()
    }

    fn mandatory_labels() -> &'static [&'static str] {
        &[
            "crash:inside-flush",
            "crash:between-data-sync-and-metadata-sync",
            "crash:after-relocation",
            "crash:after-reuse-of-freed-extent",
            "crash:inside-compact",
            "crash:dirty-pages-and-untouched-flushed-region",
        ]
    }

    fn assumptions() -> Vec<String> {
        vec![
            "4 KiB page writes are atomic; file-length changes are durable immediately and in order (as the property states)".into(),
            "a hole punch behaves like a write of zero pages that is durable at the next sync of the data file".into(),
            "single-threaded histories: the model at a sync event is the model before the operation that syncs".into(),
        ]
    }

    fn max_shrink_iters(tier: Tier) -> u32 {
        tier.pick(600, 1500)
    }
}

#[allow(dead_code)]
fn _unused(_: OffSel) {}
