//! C08 vecdb: all read paths agree for every range and never panic.
use proptest::prelude::*;
use proptest::strategy::BoxedStrategy;
use serde::{Deserialize, Serialize};

use super::readrun::{Crossover, ROp, ReadStats, read_req, run_reads, set_crossover};
use crate::common::runner::Prop;
use crate::common::{Obs, Tier};
use crate::dispatch_vec;
use crate::vecmodel::{Elem, MATRIX, OpMix, Sut, VecCfg, VecKind, vop_strategy};

#[derive(Clone, Debug, Serialize, Deserialize)]
pub struct Case {
    pub cfg: VecCfg,
    pub crossover: Crossover,
    pub ops: Vec<ROp>,
}

pub struct P;

fn run_generic<V: VecKind>(case: &Case, obs: &mut Obs) -> Result<(), String>
where
    V::T: Elem,
{
    let cfg = case.cfg;
    let mut sut = Sut::<V>::new(cfg)?;
    set_crossover(case.crossover);
    let tag = format!("[{:?}/{}/{:?}]", cfg.fmt, V::T::NAME, case.crossover);
    let mut st = ReadStats::default();
    let mut nontrivial = false;
    // a boxed read-only clone taken once and kept across the mutations (re-taken only when the vector itself is
    // dropped for a re-import): it must keep following the writer's stored contents
    let mut old = Some(sut.v().read_only_boxed_clone());
    let mut old_age = 0u32;
    for (i, op) in case.ops.iter().enumerate() {
        match op {
            ROp::Plain(op) => {
                let reimport = matches!(op, crate::vecmodel::VOp::Reimport);
                if reimport {
                    old = None;
                }
                sut.apply(op, obs).map_err(|e| format!("{tag} op #{i} {op:?}: {e}"))?;
                if reimport {
                    old = Some(sut.v().read_only_boxed_clone());
                    old_age = 0;
                } else {
                    old_age += 1;
                }
            }
            ROp::Read(req) => {
                run_reads(&sut, req, case.crossover, obs, &mut st, true).map_err(|e| format!("{tag} read #{i} {req:?}: {e}"))?;
                if let Some(o) = &old {
                    if super::readrun::check_kept_clone(&sut, o, req, &mut st).map_err(|e| format!("{tag} read #{i} {req:?} (clone taken {old_age} operations earlier): {e}"))? && old_age > 0 {
                        obs.label("view:kept-clone");
                        if obs.has("reset") {
                            obs.label("view:kept-clone-across-reset");
                        }
                    }
                }
                if obs.has("state:stored+pushed") && (obs.has("state:holes") || obs.has("range:straddles-pages")) && st.io_backend {
                    nontrivial = true;
                }
            }
        }
    }
    set_crossover(Crossover::Default);
    sut.observe().map_err(|e| format!("{tag} final state: {e}"))?;
    obs.count("read_calls", st.reads);
    if nontrivial {
        obs.set_nontrivial();
    }
    Ok(())
}

impl Prop for P {
    type Case = Case;
    const ID: &'static str = "C08";
    const ENGINE: &'static str = "E3-vecmodel + read matrix";

    fn cases(tier: Tier) -> u32 {
        tier.pick(16000, 150000)
    }

    fn strategy(tier: Tier) -> BoxedStrategy<Case> {
        let n = tier.pick(24usize, 70);
        (0..MATRIX.len(), prop_oneof![2 => Just(Crossover::Default), 2 => Just(Crossover::Zero), 1 => Just(Crossover::Bytes64)])
            .prop_flat_map(move |(ci, crossover)| {
                let (fmt, ty) = MATRIX[ci];
                let mix = OpMix { raw_ops: fmt.is_raw(), rollback_ops: false, plain_writes: true, reimport: true, reset: true };
                let rop = prop_oneof![
                    3 => vop_strategy(mix).prop_map(ROp::Plain),
                    1 => read_req().prop_map(ROp::Read),
                ];
                // 1 in 40 cases starts with a vector longer than one file-IO scan buffer (refill boundary)
                (prop::collection::vec(rop, 0..=n), read_req(), 0u8..40, -8i8..=8, any::<u16>()).prop_map(move |(mut ops, last, big, d, pat)| {
                    if big == 0 {
                        ops.insert(0, ROp::Plain(crate::vecmodel::VOp::PushRun { n: crate::vecmodel::RunLen::IoBuffer(d), pat }));
                        ops.insert(1, ROp::Plain(crate::vecmodel::VOp::Write));
                    }
                    ops.push(ROp::Read(last));
                    Case { cfg: VecCfg { fmt, ty, retention: 0 }, crossover, ops }
                })
            })
            .boxed()
    }

    fn run(case: &Case, obs: &mut Obs) -> Result<(), String> {
        let cfg = case.cfg;
        dispatch_vec!(cfg, run_generic, (case, obs))
    }

    fn rule() -> String {
        "C03-style histories (dirty and clean states, with and without deleted slots, all formats of the 35-entry matrix) with read requests interleaved: (from,to) drawn from {0, len, len+k, fraction, page boundary k +-2, stored/pushed edge +-3, usize::MAX} (so empty, reversed, beyond-len, page-straddling, stored/pushed-straddling ranges occur), index lists from the same selectors; mmap/file-IO crossover forced to default / 0 bytes / 64 bytes. Every read path (collect*, collect_range*, collect_one*, first/last, signed ranges, fold/try_fold (+early exit)/for_each (+dyn), read_into (append semantics), cursor next/get/advance/fold/for_each, read_sorted*, min/max/sum (+dyn), get_any_or_read, VecReader, read_at_once, read-only clones (fresh ones, and one boxed clone kept from the start of the case or the last re-import across all later mutations incl. reset), boxed clones, CachedVec (cold and warm), fold_stored_io / fold_stored_mmap) is compared with the model restricted to the range; any panic is a violation. Non-trivial: a read in a state with stored and pushed elements and (deleted slots or a page-straddling range) in a case where the file-IO back-end served at least one read.".into()
    }

    fn mandatory_labels() -> &'static [&'static str] {
        &["range:reversed", "range:beyond-len", "range:empty", "range:straddles-stored/pushed", "range:straddles-pages", "state:holes", "state:stored+pushed", "backend:file-io", "view:read-only-clone", "view:kept-clone", "view:kept-clone-across-reset", "view:cached", "state:stored_len!=on-disk"]
    }

    fn assumptions() -> Vec<String> {
        vec![
            "stored-only views (read-only clones, VecReader, read_at_once, fold_stored_*) are documented to ignore deleted slots and pending updates: their values are compared only in states whose stored prefix equals the logical contents".into(),
            "VecReader::get out of bounds panics by contract and is not generated; try_get is".into(),
        ]
    }
}
