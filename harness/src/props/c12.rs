//! C12 rawdb: compaction only ever discards bytes nobody can reach (sequential part: E1 + E2).
use proptest::prelude::*;
use proptest::strategy::BoxedStrategy;

use crate::common::runner::Prop;
use crate::common::tmp::Scratch;
use crate::common::{Obs, Tier};
use crate::crash::{self, EnumCfg, EnumStats, Ev, PG, Sim};
use serde::{Deserialize, Serialize};

use crate::props::c05::{Case as SeqCase, crash_op, label_stats, prefix_ops, record};
use crate::props::c10;

/// sequential history (E1 + E2) or concurrent programs under the scheduler (E6)
#[derive(Clone, Debug, Serialize, Deserialize)]
#[serde(untagged)]
pub enum Case {
    Seq(SeqCase),
    Conc(c10::Case),
}
use crate::rawmodel::{LayoutSnap, Op, short};

fn ceil_pg(n: usize) -> usize {
    n.div_ceil(PG) * PG
}

fn regions_equal(a: &LayoutSnap, b: &LayoutSnap) -> Result<(), String> {
    if a.regions != b.regions {
        for (x, y) in a.regions.iter().zip(&b.regions) {
            if x != y {
                return Err(format!(
                    "compact() changed the placement/length of a live region: '{}' start {} reserved {} len {} -> '{}' start {} reserved {} len {}",
                    short(&x.3), x.0, x.1, x.2, short(&y.3), y.0, y.1, y.2
                ));
            }
        }
        return Err(format!("compact() changed the set of live extents: {} -> {}", a.regions.len(), b.regions.len()));
    }
    if a.file_len != b.file_len {
        return Err(format!("compact() changed the file's logical length {} -> {}", a.file_len, b.file_len));
    }
    Ok(())
}

pub struct P;

impl Prop for P {
    type Case = Case;
    const ID: &'static str = "C12";
    const ENGINE: &'static str = "E2-crash";
    const LEVEL: &'static str = "fault_enumeration";

    fn cases(tier: Tier) -> u32 {
        tier.pick(3200, 40000)
    }

    fn strategy(tier: Tier) -> BoxedStrategy<Case> {
        let n = tier.pick(16usize, 40);
        let seq = (
            prop_oneof![4 => Just(0u32), 1 => Just(1u32 << 20)],
            prefix_ops(),
            prop::collection::vec(crash_op(9), 1..=n),
            any::<u64>(),
        )
            .prop_map(|(min_len, mut ops, tail, seed)| {
                ops.extend(tail);
                Case::Seq(SeqCase { min_len, ops, seed })
            });
        let conc = c10::case_strategy(tier.pick(5usize, 10), true).prop_map(Case::Conc);
        prop_oneof![2 => seq, 3 => conc].boxed()
    }

    fn run(case: &Case, obs: &mut Obs) -> Result<(), String> {
        let case = match case {
            Case::Seq(c) => {
                obs.label("part:sequential+crash");
                c
            }
            Case::Conc(c) => {
                // compact() running concurrently with writers: per-program byte models, Readers, final
                // extent invariants (the C10 engine); a program that mostly compacts
                obs.label("part:concurrent");
                let r = c10::run_case(c, obs);
                obs.nontrivial = obs.has("compact-overlapped-a-write-that-extended-a-region") || obs.has("compact-ran") && obs.has(">=2-programs-holding-locks-at-once");
                return r;
            }
        };
        // ---- phase 1: the live database. Contents vs model are compared after every op by E1;
        // here: placement, lengths and the file length across each compact().
        let rec = record(case.min_len as usize, &case.ops, obs, |op, r, sut| {
            if let Op::Compact = op {
                let (a, b) = (r.layout_before.as_ref().unwrap(), r.layout_after.as_ref().unwrap());
                regions_equal(a, b)?;
                let on_disk = std::fs::metadata(sut.db().path().join("data")).map(|m| m.len() as usize).unwrap_or(0);
                if on_disk != a.file_len {
                    return Err(format!("compact() changed the data file length on disk {} -> {on_disk}", a.file_len));
                }
            }
            Ok(())
        })?;

        // ---- phase 2a: every punch against the durable metadata image and the in-memory metadata
        let mut sim = Sim::default();
        let mut punches = 0u64;
        let mut first_compact_evt = None;
        for (j, op) in rec.ops.iter().enumerate() {
            if op.is_compact && first_compact_evt.is_none() {
                first_compact_evt = Some(op.evt_start);
            }
            for k in op.evt_start..op.evt_end {
                let ev = &rec.events[k];
                if let Ev::Punch { off, len } = ev {
                    punches += 1;
                    let (off, len) = (*off, *len);
                    let ctx = format!("op #{j} {}: punch of bytes {off}..{}", op.label, off + len);
                    if off % PG != 0 || len % PG != 0 || len == 0 {
                        return Err(format!("{ctx} is not page aligned"));
                    }
                    let mem = op.layout_before.as_ref().unwrap();
                    for (s, _res, l, name) in &mem.regions {
                        if off < s + ceil_pg(*l) && *s < off + len && *l > 0 {
                            return Err(format!("{ctx} overlaps the valid bytes of live region '{}' ({s}+{l})", short(name)));
                        }
                    }
                    for (s, l, _res) in crash::durable_slots(&sim) {
                        if l > 0 && off < s + ceil_pg(l) && s < off + len {
                            return Err(format!(
                                "{ctx} overlaps bytes {s}..{} that the durable metadata still references (a crash now recovers that region with zeroed data)",
                                s + l
                            ));
                        }
                    }
                    // only free space: a tracked hole (after promotion) or a region's reserve tail
                    let after = op.layout_after.as_ref().unwrap();
                    let in_hole = after.holes.iter().any(|&(hs, hsz)| off >= hs && off + len <= hs + hsz);
                    let in_tail = mem.regions.iter().any(|(s, res, l, _)| off >= s + ceil_pg(*l) && off + len <= s + res);
                    if !in_hole && !in_tail {
                        return Err(format!("{ctx} is neither inside a free extent nor inside a region's unused reserve"));
                    }
                    if mem.regions.len() >= 2 {
                        obs.label("punch-with>=2-live-regions");
                    }
                    if in_tail {
                        obs.label("punch:reserve-tail");
                    }
                    if in_hole {
                        obs.label("punch:free-extent");
                    }
                }
                sim.apply(ev);
            }
        }
        obs.count("punches", punches);

        // ---- phase 2b: crash points inside and after compaction satisfy the C05 recovery oracle
        let Some(from) = first_compact_evt else { return Ok(()) };
        let img = Scratch::new("img");
        let mut st = EnumStats::default();
        let cfg = EnumCfg { max_flip_pages: 8, random_per_point: 1, seed: case.seed, from_event: from };
        let r = crash::enumerate(&rec.events, &rec.ops, &cfg, &img.path().join("db"), &mut st);
        label_stats(&st, obs);
        r?;
        if punches > 0 && obs.has("punch-with>=2-live-regions") {
            obs.set_nontrivial();
        }
        Ok(())
    }

    fn rule() -> String {
        "C05-style recorded histories with frequent compact(): (1) across every compact() the live regions' (name,start,reserved,len), the cached and the on-disk file length are unchanged and every region still equals the byte model (E1, after every op); (2) every hole-punch event is checked against the in-memory metadata and against the DURABLE regions-file image reconstructed by the E2 simulator at that instant: page aligned, disjoint from [start, start+ceil(len)) of every region either references, and inside a tracked free extent or a region's unused reserve; (3) every storage event from the first compact() on is a crash point with the C05 image families and recovery oracle. Non-trivial: >=1 punch issued while >=2 regions are live.".into()
    }

    fn mandatory_labels() -> &'static [&'static str] {
        &[
            "punch:reserve-tail",
            "punch:free-extent",
            "punch-with>=2-live-regions",
            "crash:inside-compact",
            "crash:after-punch-before-sync",
            "part:concurrent",
            "compact-ran",
            "compact-overlapped-a-write-that-extended-a-region",
        ]
    }

    fn assumptions() -> Vec<String> {
        vec![
            "concurrent part: interleavings at lock-request / yield-point granularity, sequential consistency (E6)".into(),
            "crash model as in C05 (atomic 4 KiB pages, ordered durable length changes, a punch = zero pages durable at the next data sync)".into(),
        ]
    }

    fn max_shrink_iters(tier: Tier) -> u32 {
        tier.pick(600, 1500)
    }
}
