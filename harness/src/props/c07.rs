//! C07 vecdb: compressed storage is lossless and its page index stays well-formed.
use proptest::prelude::*;
use proptest::strategy::BoxedStrategy;
use serde::{Deserialize, Serialize};
use vecdb::{AnyStoredVec, HEADER_OFFSET};

use crate::common::runner::Prop;
use crate::common::{Obs, Tier};
use crate::dispatch_vec;
use crate::vecmodel::{Elem, MATRIX, OpMix, Sut, VOp, VecCfg, VecKind, per_page, vop_strategy};

#[derive(Clone, Debug, Serialize, Deserialize)]
pub struct Case {
    pub cfg: VecCfg,
    pub ops: Vec<VOp>,
    /// serve every read of the case through the file-IO back-end (crossover override H7 set to 0 bytes)
    #[serde(default)]
    pub io: bool,
}

struct CrossoverGuard;
impl Drop for CrossoverGuard {
    fn drop(&mut self) {
        super::readrun::set_crossover(super::readrun::Crossover::Default);
    }
}

pub struct P;

/// Structural check of the on-disk page index (read through rawdb, not through vecdb).
pub fn inspect_pages<V: VecKind>(sut: &Sut<V>) -> Result<usize, String>
where
    V::T: Elem,
{
    let pp = per_page(sut.cfg.ty);
    let data_name = format!("{}/usize", sut.name);
    let pages_name = format!("{}/usize_pages", sut.name);
    let data = sut.db.get_region(&data_name).ok_or("data region missing")?;
    let data_len = data.meta().len();
    let pages_region = sut.db.get_region(&pages_name).ok_or("page index region missing")?;
    let bytes = pages_region.create_reader().read_all().to_vec();
    if bytes.len() % 16 != 0 {
        return Err(format!("page index region length {} is not a multiple of 16", bytes.len()));
    }
    let n = bytes.len() / 16;
    let mut expected_start = HEADER_OFFSET as u64;
    let mut total = 0usize;
    for i in 0..n {
        let e = &bytes[i * 16..i * 16 + 16];
        let start = u64::from_le_bytes(e[0..8].try_into().unwrap());
        let blen = u32::from_le_bytes(e[8..12].try_into().unwrap());
        let v = u32::from_le_bytes(e[12..16].try_into().unwrap());
        let raw = v & (1 << 31) != 0;
        let values = (v & !(1 << 31)) as usize;
        if start != expected_start {
            return Err(format!("page {i} starts at {start}, expected {expected_start} (gap or overlap in the page run)"));
        }
        if values == 0 || values > pp {
            return Err(format!("page {i} holds {values} values (capacity {pp})"));
        }
        if i + 1 < n {
            if values != pp {
                return Err(format!("page {i} of {n} is not the last but holds {values} < {pp} values"));
            }
            if raw {
                return Err(format!("page {i} of {n} is stored uncompressed but is not the last page"));
            }
        }
        if raw && blen as usize != values * V::T::SIZE {
            return Err(format!("raw page {i}: {blen} bytes for {values} values of {} bytes", V::T::SIZE));
        }
        expected_start = start + blen as u64;
        total += values;
    }
    let v = sut.v();
    if total != v.stored_len() {
        return Err(format!("page value counts add up to {total} but stored_len() is {}", v.stored_len()));
    }
    if total != v.real_stored_len() {
        return Err(format!("page value counts add up to {total} but real_stored_len() is {}", v.real_stored_len()));
    }
    if data_len as u64 != expected_start {
        return Err(format!("data region ends at {data_len} but the last page ends at {expected_start}"));
    }
    Ok(n)
}

fn run_generic<V: VecKind>(cfg: VecCfg, ops: &[VOp], io: bool, obs: &mut Obs) -> Result<(), String>
where
    V::T: Elem,
{
    let mut sut = Sut::<V>::new(cfg)?;
    let _guard = CrossoverGuard;
    if io {
        super::readrun::set_crossover(super::readrun::Crossover::Zero);
        obs.label("backend:file-io");
    }
    let tag = format!("[{:?}/{}]", cfg.fmt, V::T::NAME);
    let mut regime_changes_with_truncation = false;
    let mut truncated_since_write = false;
    let mut last_regime: Option<&'static str> = None;
    inspect_pages(&sut).map_err(|e| format!("{tag} after import: {e}"))?;
    for (i, op) in ops.iter().enumerate() {
        let before: std::collections::BTreeSet<&'static str> = sut.regimes.clone();
        sut.apply(op, obs).map_err(|e| format!("{tag} op #{i} {op:?}: {e}"))?;
        sut.observe().map_err(|e| format!("{tag} after op #{i} {op:?}: {e}"))?;
        match op {
            VOp::Truncate { .. } => truncated_since_write = true,
            VOp::Write | VOp::Flush | VOp::StampedWrite { .. } | VOp::Reimport => {
                let pages = inspect_pages(&sut).map_err(|e| format!("{tag} on-disk index after op #{i} {op:?}: {e}"))?;
                if pages >= 2 {
                    obs.label("multi-page");
                }
                // the stored pages read back through both scan back-ends (several buffer refills when the
                // compressed pages exceed the 512 KiB scan buffer)
                let stored = sut.v().stored_len();
                if !sut.model.stored_dirty && stored == sut.model.stored.min(sut.model.items.len()) {
                    let want: Vec<V::T> = sut.model.items[..stored].iter().map(|x| x.expect("compressed vectors have no deleted slots")).collect();
                    for back in [true, false] {
                        if let Some(got) = sut.v().comp_fold_stored(back, 0, stored) {
                            if let Some(d) = crate::vecmodel::first_diff_dense(&got, &want) {
                                return Err(format!("{tag} after op #{i} {op:?}: fold_stored_{}(0, {stored}) differs from the values written: {d}", if back { "io" } else { "mmap" }));
                            }
                        }
                    }
                    let data_bytes = sut.db.get_region(&format!("{}/usize", sut.name)).map(|r| r.meta().len()).unwrap_or(0);
                    if data_bytes > 512 * 1024 + HEADER_OFFSET {
                        obs.label("scan:several-buffer-refills");
                    }
                }
                let new: Vec<&&'static str> = sut.regimes.difference(&before).collect();
                let this = new.first().map(|s| **s);
                if let Some(r) = this.or(last_regime) {
                    if let Some(l) = last_regime
                        && l != r
                        && truncated_since_write
                    {
                        regime_changes_with_truncation = true;
                    }
                    last_regime = Some(r);
                }
                truncated_since_write = false;
            }
            _ => {}
        }
    }
    if sut.regimes.len() >= 2 && regime_changes_with_truncation {
        obs.set_nontrivial();
    }
    Ok(())
}

impl Prop for P {
    type Case = Case;
    const ID: &'static str = "C07";
    const ENGINE: &'static str = "E3-vecmodel";

    fn cases(tier: Tier) -> u32 {
        tier.pick(15000, 80000)
    }

    fn strategy(tier: Tier) -> BoxedStrategy<Case> {
        let n = tier.pick(30usize, 100);
        let pairs: Vec<_> = MATRIX.iter().copied().filter(|(f, _)| f.is_compressed()).collect();
        (0..pairs.len())
            .prop_flat_map(move |ci| {
                let (fmt, ty) = pairs[ci];
                let mix = OpMix { raw_ops: false, rollback_ops: false, plain_writes: true, reimport: true, reset: true };
                // 1 case in 40 starts with more than one file-IO scan buffer of stored values and reads through that
                // back-end; 1 in 5 of the others reads through it too
                (prop::collection::vec(vop_strategy(mix), 0..=n), 0u8..40, -8i8..=8, any::<u16>()).prop_map(move |(mut ops, big, d, pat)| {
                    if big == 0 {
                        ops.insert(0, VOp::PushRun { n: crate::vecmodel::RunLen::IoFills(d), pat });
                        ops.insert(1, VOp::Write);
                    }
                    Case { cfg: VecCfg { fmt, ty, retention: 0 }, ops, io: big < 10 }
                })
            })
            .boxed()
    }

    fn run(case: &Case, obs: &mut Obs) -> Result<(), String> {
        let cfg = case.cfg;
        let ops = &case.ops[..];
        let io = case.io;
        dispatch_vec!(cfg, run_generic, (cfg, ops, io, obs))
    }

    fn rule() -> String {
        "compressed formats (Pco/LZ4/Zstd x 2..32-byte elements, EagerVec<PcoVec>): value sequences incl. MIN/MAX and every float bit class; push chunkings chosen relative to the current page fill (1, k, exactly to the boundary, boundary±1/2, one page ±1, 2.5 pages); truncation into the raw page / into a compressed page / on a boundary / to 0 followed by appends; write/flush/stamped_write/reset/re-import anywhere. 1 case in 40 starts with more than one 512 KiB scan buffer of stored values and 1 in 4 serves every read through the file-IO back-end. Oracle: bit-exact model comparison after every op, both stored scan back-ends (fold_stored_io / fold_stored_mmap) over the whole stored prefix after every write + structural parse of the on-disk page index region after every write and re-import (gap-free from the header, non-last pages full and compressed, counts sum to stored length, data region ends at last page end). Non-trivial: >=2 distinct write regimes (fast raw append / partial-page re-encode / fresh pages) with a truncation between a regime change.".into()
    }

    fn mandatory_labels() -> &'static [&'static str] {
        &["regime:fast-raw-append", "regime:partial-page-reencode", "regime:fresh-pages", "raw-page-overflows", "write-after-truncate-below-stored", "multi-page", "reimport", "backend:file-io", "scan:several-buffer-refills"]
    }
}
