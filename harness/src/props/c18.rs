//! C18 rawdb: at most one open Database per directory (E8: threads + re-exec'd child processes).
use std::collections::BTreeMap;
use std::path::{Path, PathBuf};
use std::time::{Duration, Instant};

use proptest::prelude::*;
use proptest::strategy::BoxedStrategy;
use rawdb::{Database, Reader, Region};
use serde::{Deserialize, Serialize};

use crate::common::runner::Prop;
use crate::common::tmp::Scratch;
use crate::common::{Obs, Tier, fnv64, pat_bytes, rank};

#[derive(Clone, Copy, Debug, Serialize, Deserialize, PartialEq, Eq)]
pub enum MinSel {
    /// Database::open
    Plain,
    Zero,
    Half,
    Equal,
    PlusOne,
    PlusPage,
    Double,
}

#[derive(Clone, Copy, Debug, Serialize, Deserialize, PartialEq, Eq)]
pub enum Via {
    Thread,
    Process,
}

#[derive(Clone, Debug, Serialize, Deserialize)]
pub enum Op {
    CreateRegion { name: u8, len: u16, pat: u8 },
    Write { r: u16, len: u32, pat: u8 },
    Flush,
    AddClone,
    AddReader { r: u16 },
    AddRegionDb { r: u16 },
    /// a plain read-only File of the data file (open_read_only_file / Region::open_db_read_only_file), kept until
    /// the end of the history: it is neither a handle nor a region nor a reader, so it must not keep the directory locked
    KeepRoFile,
    SpawnBg,
    /// a background task that fails at once, collected with sync_bg_tasks() right away
    FailingBgThenSync,
    /// sync_bg_tasks(): wakes and joins every pending background task
    SyncBg,
    DropHolder { i: u16 },
    /// drops every plain Database handle; Readers / region.db() references keep the instance open
    DropDbHandles,
    /// another open of the same directory: refused while held, succeeds once closed
    Open { via: Via, min: MinSel },
}

#[derive(Clone, Debug, Serialize, Deserialize)]
pub struct Case {
    pub init_min: MinSel,
    pub ops: Vec<Op>,
}

enum Holder {
    Db(Database),
    Reader(Reader),
    RegionDb(Database),
}

impl Holder {
    fn db(&self) -> Option<&Database> {
        match self {
            Holder::Db(d) | Holder::RegionDb(d) => Some(d),
            Holder::Reader(_) => None,
        }
    }
}

fn min_sel() -> impl Strategy<Value = MinSel> {
    prop_oneof![
        3 => Just(MinSel::Plain),
        1 => Just(MinSel::Zero),
        1 => Just(MinSel::Half),
        1 => Just(MinSel::Equal),
        2 => Just(MinSel::PlusOne),
        2 => Just(MinSel::PlusPage),
        2 => Just(MinSel::Double),
    ]
}

fn resolve_min(sel: MinSel, cur: usize) -> Option<usize> {
    match sel {
        MinSel::Plain => None,
        MinSel::Zero => Some(0),
        MinSel::Half => Some(cur / 2),
        MinSel::Equal => Some(cur),
        MinSel::PlusOne => Some(cur + 1),
        MinSel::PlusPage => Some(cur + 4096),
        MinSel::Double => Some(cur * 2 + 12345),
    }
}

fn op_strategy() -> BoxedStrategy<Op> {
    // 0 = exactly up to the region's reservation (a region that is full to the last reserved byte)
    let sz = prop_oneof![1 => Just(0u32), 3 => 1u32..200, 2 => 4000u32..9000, 1 => 20_000u32..70_000, 1 => 900_000u32..1_300_000];
    prop_oneof![
        2 => (0u8..6, prop_oneof![4 => 1u16..3000, 1 => Just(4096u16)], any::<u8>()).prop_map(|(name, len, pat)| Op::CreateRegion { name, len, pat }),
        4 => (any::<u16>(), sz, any::<u8>()).prop_map(|(r, len, pat)| Op::Write { r, len, pat }),
        2 => Just(Op::Flush),
        2 => Just(Op::AddClone),
        3 => any::<u16>().prop_map(|r| Op::AddReader { r }),
        2 => any::<u16>().prop_map(|r| Op::AddRegionDb { r }),
        1 => Just(Op::KeepRoFile),
        2 => Just(Op::SpawnBg),
        1 => Just(Op::FailingBgThenSync),
        1 => Just(Op::SyncBg),
        6 => any::<u16>().prop_map(|i| Op::DropHolder { i }),
        1 => Just(Op::DropDbHandles),
        6 => min_sel().prop_map(|min| Op::Open { via: Via::Thread, min }),
        2 => min_sel().prop_map(|min| Op::Open { via: Via::Process, min }),
    ]
    .boxed()
}

// ------------------------------------------------------------------ open attempts

#[derive(Debug, Clone, PartialEq, Eq)]
enum Attempt {
    Lock,
    Other(String),
    Opened,
}

/// Child side of a cross-process attempt (`vcheck --child-open <dir> <min|plain>`).
pub fn child_open(dir: &str, min: &str) -> i32 {
    let p = Path::new(dir);
    let r = match min.parse::<usize>() {
        Ok(m) => Database::open_with_min_len(p, m),
        Err(_) => Database::open(p),
    };
    match r {
        Ok(db) => {
            println!("OPENED {}", db.regions().len());
            drop(db);
        }
        Err(rawdb::Error::TryLock(_)) => println!("LOCK"),
        Err(e) => println!("OTHER {e}"),
    }
    0
}

fn open_in(p: &Path, min: Option<usize>) -> Result<Database, rawdb::Error> {
    match min {
        Some(m) => Database::open_with_min_len(p, m),
        None => Database::open(p),
    }
}

enum Pending {
    Thread(std::sync::mpsc::Receiver<Attempt>, i64),
    Process(std::process::Child),
}

/// True when the task is asleep inside a *blocking* file-lock system call (flock without LOCK_NB,
/// fcntl F_SETLKW / F_OFD_SETLKW): read from /proc/<..>/syscall, so it is a fact about the attempt,
/// not a guess from elapsed time.
fn blocked_in_lock_syscall(proc_path: &str) -> bool {
    let Ok(s) = std::fs::read_to_string(proc_path) else { return false };
    let mut it = s.split_whitespace();
    let nr = it.next().and_then(|t| t.parse::<i64>().ok());
    let _fd = it.next();
    let arg2 = it.next().and_then(|t| i64::from_str_radix(t.trim_start_matches("0x"), 16).ok());
    match (nr, arg2) {
        (Some(73), Some(op)) => op & 4 == 0,          // flock(fd, op) without LOCK_NB
        (Some(72), Some(cmd)) => cmd == 7 || cmd == 38, // fcntl F_SETLKW / F_OFD_SETLKW
        _ => false,
    }
}

impl Pending {
    fn proc_path(&self) -> String {
        match self {
            Pending::Thread(_, tid) => format!("/proc/self/task/{tid}/syscall"),
            Pending::Process(c) => format!("/proc/{}/syscall", c.id()),
        }
    }
}

fn start_attempt(via: Via, p: &Path, min: Option<usize>) -> Result<Pending, String> {
    match via {
        Via::Thread => {
            let (tx, rx) = std::sync::mpsc::channel();
            let (tid_tx, tid_rx) = std::sync::mpsc::channel();
            let p = p.to_path_buf();
            std::thread::spawn(move || {
                let _ = tid_tx.send(unsafe { libc::syscall(libc::SYS_gettid) } as i64);
                let a = match open_in(&p, min) {
                    Ok(db) => {
                        drop(db);
                        Attempt::Opened
                    }
                    Err(rawdb::Error::TryLock(_)) => Attempt::Lock,
                    Err(e) => Attempt::Other(e.to_string()),
                };
                let _ = tx.send(a);
            });
            let tid = tid_rx.recv_timeout(Duration::from_secs(120)).map_err(|_| "INCONCLUSIVE: attempt thread did not start".to_string())?;
            Ok(Pending::Thread(rx, tid))
        }
        Via::Process => {
            let exe = std::env::current_exe().map_err(|e| format!("INCONCLUSIVE: current_exe: {e}"))?;
            let child = std::process::Command::new(exe)
                .arg("--child-open")
                .arg(p)
                .arg(min.map_or("plain".to_string(), |m| m.to_string()))
                .stdout(std::process::Stdio::piped())
                .stderr(std::process::Stdio::null())
                .spawn()
                .map_err(|e| format!("INCONCLUSIVE: cannot spawn child process: {e}"))?;
            Ok(Pending::Process(child))
        }
    }
}

fn poll_attempt(p: &mut Pending, wait: Duration) -> Result<Option<Attempt>, String> {
    match p {
        Pending::Thread(rx, _) => match rx.recv_timeout(wait) {
            Ok(a) => Ok(Some(a)),
            Err(std::sync::mpsc::RecvTimeoutError::Timeout) => Ok(None),
            Err(_) => Err("open attempt thread panicked".into()),
        },
        Pending::Process(child) => {
            let t0 = Instant::now();
            loop {
                match child.try_wait() {
                    Ok(Some(_)) => {
                        use std::io::Read;
                        let mut s = String::new();
                        if let Some(o) = child.stdout.as_mut() {
                            let _ = o.read_to_string(&mut s);
                        }
                        let s = s.trim();
                        return if s == "LOCK" {
                            Ok(Some(Attempt::Lock))
                        } else if s.starts_with("OPENED") {
                            Ok(Some(Attempt::Opened))
                        } else if let Some(m) = s.strip_prefix("OTHER ") {
                            Ok(Some(Attempt::Other(m.to_string())))
                        } else {
                            Err(format!("child process attempting the open died without a result (output {s:?})"))
                        };
                    }
                    Ok(None) => {
                        if t0.elapsed() > wait {
                            return Ok(None);
                        }
                        std::thread::sleep(Duration::from_micros(300));
                    }
                    Err(e) => return Err(format!("INCONCLUSIVE: wait on child: {e}")),
                }
            }
        }
    }
}

// ------------------------------------------------------------------ interpreter

#[derive(Clone, PartialEq, Eq)]
struct FileSnap {
    data_len: u64,
    data_hash: u64,
    regions_len: u64,
    regions_hash: u64,
}

fn file_snap(p: &Path) -> Result<FileSnap, String> {
    // plain read(2), never through the holder's memory map
    let d = std::fs::read(p.join("data")).map_err(|e| format!("data file unreadable: {e}"))?;
    let r = std::fs::read(p.join("regions")).map_err(|e| format!("regions file unreadable: {e}"))?;
    Ok(FileSnap { data_len: d.len() as u64, data_hash: fnv64(&d), regions_len: r.len() as u64, regions_hash: fnv64(&r) })
}

struct St {
    _dir: Scratch,
    path: PathBuf,
    holders: Vec<Holder>,
    regions: BTreeMap<String, Region>,
    model: BTreeMap<String, Vec<u8>>,
    dirty: bool,
    bg_pending: bool,
    ro_files: Vec<std::fs::File>,
    /// background tasks of the instance that have started and not yet returned
    bg_running: std::sync::Arc<std::sync::atomic::AtomicUsize>,
    wc: usize,
}

impl St {
    fn any_db(&self) -> Option<Database> {
        if let Some(d) = self.holders.iter().find_map(|h| h.db()) {
            return Some(d.clone());
        }
        // only readers keep the database alive: a region still reaches it
        if !self.holders.is_empty() {
            return self.regions.values().next().map(|r| r.db());
        }
        None
    }
    fn has_reader(&self) -> bool {
        self.holders.iter().any(|h| matches!(h, Holder::Reader(_)))
    }
    fn pick_region(&self, r: u16) -> Option<(String, Region)> {
        if self.regions.is_empty() {
            return None;
        }
        let (n, reg) = self.regions.iter().nth(rank(r, self.regions.len())).unwrap();
        Some((n.clone(), reg.clone()))
    }
    fn data_len(&self) -> usize {
        std::fs::metadata(self.path.join("data")).map(|m| m.len() as usize).unwrap_or(0)
    }
    fn check_model(&self, db: &Database, ctx: &str) -> Result<(), String> {
        let names: Vec<String> = {
            let regs = db.regions();
            let mut v: Vec<String> = regs.id_to_index().keys().cloned().collect();
            v.sort();
            v
        };
        let want: Vec<String> = self.model.keys().cloned().collect();
        if names != want {
            return Err(format!("{ctx}: region names {names:?} != expected {want:?}"));
        }
        for (n, bytes) in &self.model {
            let r = db.get_region(n).ok_or_else(|| format!("{ctx}: region '{n}' missing"))?;
            let reader = r.create_reader();
            if reader.len() != bytes.len() {
                return Err(format!("{ctx}: region '{n}' has {} bytes, expected {}", reader.len(), bytes.len()));
            }
            if reader.read_all() != &bytes[..] {
                let i = reader.read_all().iter().zip(bytes).position(|(a, b)| a != b).unwrap_or(0);
                return Err(format!("{ctx}: region '{n}' differs from what was flushed at offset {i}"));
            }
        }
        Ok(())
    }
    fn flush(&mut self) -> Result<(), String> {
        if let Some(db) = self.any_db() {
            db.flush().map_err(|e| format!("flush failed: {e}"))?;
            self.dirty = false;
        }
        Ok(())
    }
}

fn run_case(case: &Case, obs: &mut Obs) -> Result<(), String> {
    let dir = Scratch::new("c18");
    let path = dir.path().join("db");
    let db = open_in(&path, resolve_min(case.init_min, 0)).map_err(|e| format!("first open failed: {e}"))?;
    let mut st = St {
        _dir: dir,
        path,
        holders: vec![Holder::Db(db)],
        regions: BTreeMap::new(),
        model: BTreeMap::new(),
        dirty: false,
        bg_pending: false,
        ro_files: vec![],
        bg_running: Default::default(),
        wc: 0,
    };
    for (i, op) in case.ops.iter().enumerate() {
        let ctx = format!("op #{i} {op:?}");
        let open_now = !st.holders.is_empty();
        match op {
            Op::CreateRegion { name, len, pat } => {
                if !open_now || st.has_reader() {
                    continue;
                }
                let name = format!("r{name}");
                if st.model.contains_key(&name) {
                    continue;
                }
                let db = st.any_db().unwrap();
                let r = db.create_region_if_needed(&name).map_err(|e| format!("{ctx}: {e}"))?;
                let data = pat_bytes(*pat, st.wc, *len as usize);
                st.wc += data.len() + 13;
                r.write(&data).map_err(|e| format!("{ctx}: {e}"))?;
                st.regions.insert(name.clone(), r);
                st.model.insert(name, data);
                st.dirty = true;
            }
            Op::Write { r, len, pat } => {
                // growing the file needs the map exclusively: never while a reader of this thread lives
                if !open_now || st.has_reader() {
                    continue;
                }
                let Some((name, reg)) = st.pick_region(*r) else { continue };
                let len = if *len == 0 {
                    let m = reg.meta();
                    let room = (m.reserved() - m.len()) as usize;
                    if room == 0 { m.reserved() as usize } else { room }
                } else {
                    *len as usize
                };
                let data = pat_bytes(*pat, st.wc, len);
                st.wc += data.len() + 13;
                reg.write(&data).map_err(|e| format!("{ctx}: {e}"))?;
                st.model.get_mut(&name).unwrap().extend_from_slice(&data);
                st.dirty = true;
            }
            Op::Flush => {
                if open_now {
                    st.flush().map_err(|e| format!("{ctx}: {e}"))?;
                }
            }
            Op::AddClone => {
                if let Some(db) = st.any_db() {
                    st.holders.push(Holder::Db(db));
                }
            }
            Op::AddReader { r } => {
                if !open_now {
                    continue;
                }
                let Some((_, reg)) = st.pick_region(*r) else { continue };
                st.holders.push(Holder::Reader(reg.create_reader()));
                obs.label("holder:reader");
            }
            Op::AddRegionDb { r } => {
                if !open_now {
                    continue;
                }
                let Some((_, reg)) = st.pick_region(*r) else { continue };
                st.holders.push(Holder::RegionDb(reg.db()));
                obs.label("holder:region-db");
            }
            Op::KeepRoFile => {
                if !open_now {
                    continue;
                }
                let f = match st.regions.values().next() {
                    Some(r) if st.ro_files.len() % 2 == 1 => r.open_db_read_only_file(),
                    _ => match st.any_db() {
                        Some(db) => db.open_read_only_file(),
                        None => continue,
                    },
                };
                st.ro_files.push(f.map_err(|e| format!("{ctx}: {e}"))?);
                obs.label("plain-read-only-file-kept");
            }
            Op::SpawnBg => {
                if let Some(db) = st.any_db() {
                    let running = st.bg_running.clone();
                    running.fetch_add(1, std::sync::atomic::Ordering::SeqCst);
                    db.run_bg(move |db| {
                        db.bg_sleep(Duration::from_secs(3600));
                        let r = db.flush().map(|_| ());
                        running.fetch_sub(1, std::sync::atomic::Ordering::SeqCst);
                        r
                    });
                    st.bg_pending = true;
                    obs.label("holder:bg-task");
                }
            }
            Op::FailingBgThenSync => {
                // only with no other task pending: sync_bg_tasks() stops at the first failed task
                if !st.bg_pending
                    && let Some(db) = st.any_db()
                {
                    db.run_bg(|_| Err(rawdb::Error::RegionNotFound));
                    let _ = db.sync_bg_tasks();
                    obs.label("bg-task-failed-and-was-collected");
                }
            }
            Op::SyncBg => {
                if let Some(db) = st.any_db() {
                    let _ = db.sync_bg_tasks();
                    let n = st.bg_running.load(std::sync::atomic::Ordering::SeqCst);
                    if n != 0 {
                        return Err(format!("{ctx}: sync_bg_tasks() returned while {n} background task(s) of the instance are still running"));
                    }
                    st.bg_pending = false;
                    obs.label("sync_bg_tasks");
                }
            }
            Op::DropHolder { i } => {
                if !open_now {
                    continue;
                }
                let k = rank(*i, st.holders.len());
                if st.holders.len() == 1 {
                    // last holder: what the next open must see is what was flushed
                    if st.dirty {
                        st.flush().map_err(|e| format!("{ctx}: {e}"))?;
                    }
                    st.regions.clear();
                    obs.label("closed");
                    if st.bg_pending {
                        obs.label("closed-with-bg-task");
                    }
                    st.bg_pending = false;
                }
                let h = st.holders.remove(k);
                drop(h);
                if st.holders.is_empty() {
                    let n = st.bg_running.load(std::sync::atomic::Ordering::SeqCst);
                    if n != 0 {
                        return Err(format!(
                            "{ctx}: the last handle of the instance is gone but {n} of its background task(s) are still running (the instance is not closed; they would outlive its lock)"
                        ));
                    }
                }
            }
            Op::DropDbHandles => {
                // only when something else keeps the instance open (closing is DropHolder's job)
                if st.holders.iter().any(|h| !matches!(h, Holder::Db(_))) {
                    st.holders.retain(|h| !matches!(h, Holder::Db(_)));
                }
            }
            Op::Open { via, min } => {
                let cur = st.data_len();
                let min_v = resolve_min(*min, cur);
                if open_now {
                    // ---- must be refused, and must leave the files alone
                    let before = file_snap(&st.path)?;
                    let mut pend = start_attempt(*via, &st.path, min_v)?;
                    let res = poll_attempt(&mut pend, Duration::from_secs(5)).map_err(|e| format!("{ctx}: {e}"))?;
                    let after_len = st.data_len();
                    let res = match res {
                        Some(a) => a,
                        None => {
                            // Not back after 5 s: slow (loaded machine) or waiting for the lock? Decided by
                            // what the attempt is doing, never by elapsed time: asleep inside a blocking
                            // lock system call (seen twice) = it waits instead of failing.
                            let pp = pend.proc_path();
                            let t0 = Instant::now();
                            let mut seen_blocked = 0;
                            loop {
                                if let Some(a) = poll_attempt(&mut pend, Duration::from_millis(200)).map_err(|e| format!("{ctx}: {e}"))? {
                                    break a;
                                }
                                if blocked_in_lock_syscall(&pp) {
                                    seen_blocked += 1;
                                } else {
                                    seen_blocked = 0;
                                }
                                if seen_blocked >= 3 {
                                    // let it go (a blocked thread cannot be killed): release the holders
                                    st.regions.clear();
                                    st.holders.clear();
                                    let _ = poll_attempt(&mut pend, Duration::from_secs(30));
                                    if let Pending::Process(mut c) = pend {
                                        let _ = c.kill();
                                        let _ = c.wait();
                                    }
                                    return Err(format!(
                                        "{ctx}: the second open did not fail while the database was held: it is asleep in a blocking file-lock system call, waiting for the holder"
                                    ));
                                }
                                if t0.elapsed() > Duration::from_secs(180) {
                                    if let Pending::Process(mut c) = pend {
                                        let _ = c.kill();
                                        let _ = c.wait();
                                    }
                                    return Err("INCONCLUSIVE: open attempt did not return within 185 s and is not in a lock call".into());
                                }
                            }
                        }
                    };
                    if after_len != cur {
                        return Err(format!(
                            "{ctx}: refused open changed the data file length {cur} -> {after_len} (holder alive: {} handle(s))",
                            st.holders.len()
                        ));
                    }
                    match res {
                        Attempt::Lock => {}
                        Attempt::Opened => {
                            return Err(format!(
                                "{ctx}: a second open SUCCEEDED while the first instance is still held by {} holder(s) (Database handles among them: {})",
                                st.holders.len(),
                                st.holders.iter().filter(|h| matches!(h, Holder::Db(_))).count()
                            ));
                        }
                        Attempt::Other(m) => return Err(format!("{ctx}: second open failed with '{m}' instead of the lock error")),
                    }
                    let after = file_snap(&st.path)?;
                    if after != before {
                        return Err(format!(
                            "{ctx}: refused open modified the files (data {}B/{:x} -> {}B/{:x}, regions {}B/{:x} -> {}B/{:x})",
                            before.data_len, before.data_hash, after.data_len, after.data_hash,
                            before.regions_len, before.regions_hash, after.regions_len, after.regions_hash
                        ));
                    }
                    // the holder still works
                    if let Some(db) = st.any_db() {
                        st.check_model(&db, &format!("{ctx}: holder's view after the refused open"))?;
                    }
                    obs.label(match via {
                        Via::Thread => "refused:thread",
                        Via::Process => "refused:process",
                    });
                    let above = min_v.is_some_and(|m| m > cur);
                    if above {
                        obs.label("refused:min_len>size");
                    }
                    let only_indirect = !st.holders.iter().any(|h| matches!(h, Holder::Db(_)));
                    if only_indirect {
                        obs.label("refused:held-only-by-reader/region-db");
                    }
                    if above || only_indirect || st.bg_pending {
                        obs.set_nontrivial();
                    }
                } else {
                    // ---- nobody holds it: must succeed and see exactly the flushed data
                    let db = match via {
                        Via::Thread => open_in(&st.path, min_v),
                        Via::Process => {
                            // a foreign process opens and closes it first, then this one
                            let mut pend = start_attempt(Via::Process, &st.path, min_v)?;
                            match poll_attempt(&mut pend, Duration::from_secs(30)).map_err(|e| format!("{ctx}: {e}"))? {
                                Some(Attempt::Opened) => {}
                                Some(a) => return Err(format!("{ctx}: open by another process after every holder was dropped gave {a:?}")),
                                None => return Err("INCONCLUSIVE: child open did not return within 30 s".into()),
                            }
                            obs.label("reopen:process-first");
                            open_in(&st.path, min_v)
                        }
                    }
                    .map_err(|e| format!("{ctx}: open after every holder was dropped failed: {e}"))?;
                    st.check_model(&db, &format!("{ctx}: after reopen"))?;
                    if let Some(m) = min_v {
                        let l = st.data_len();
                        if l < m.max(cur) {
                            return Err(format!("{ctx}: data file is {l} bytes after open_with_min_len({m}) (was {cur})"));
                        }
                    }
                    for n in st.model.keys() {
                        st.regions.insert(n.clone(), db.get_region(n).unwrap());
                    }
                    st.holders.push(Holder::Db(db));
                    obs.label("reopen");
                }
            }
        }
    }
    // tear down in a defined order (regions are weak; holders last)
    st.regions.clear();
    st.holders.clear();
    Ok(())
}

pub struct P;

impl Prop for P {
    type Case = Case;
    const ID: &'static str = "C18";
    const ENGINE: &'static str = "E8-proc";

    fn cases(tier: Tier) -> u32 {
        tier.pick(2000, 60000)
    }

    fn strategy(tier: Tier) -> BoxedStrategy<Case> {
        (min_sel(), prop::collection::vec(op_strategy(), 1..=tier.pick(24usize, 60)))
            .prop_map(|(init_min, ops)| Case { init_min, ops })
            .boxed()
    }

    fn run(case: &Case, obs: &mut Obs) -> Result<(), String> {
        run_case(case, obs)
    }

    fn rule() -> String {
        "proptest histories over one directory: create/append/flush, holders of the first instance added and dropped in any order (Database clones, Readers, region.db() references, a sleeping run_bg task; plain read-only Files of the data file are opened and kept to the end - they are no holders), and further opens of the same directory via Database::open / open_with_min_len(0, half, equal, +1, +page, 2x+12345 of the current size) from another thread or from a re-exec'd child process. While >=1 holder lives the attempt must return the lock error (an attempt that blocks is decided by releasing the holders: success afterwards = violation), data and regions files must be byte-identical (read(2), not mmap) and the holder must still read its model; once the last holder is gone the open must succeed (optionally first by a foreign process) and read back exactly the flushed model (names and bytes, both directions). Non-trivial: refused attempt with min_len above the current size, or while the instance is kept alive only by Readers/region.db() references, or with a background task pending.".into()
    }

    fn mandatory_labels() -> &'static [&'static str] {
        &[
            "refused:thread",
            "refused:process",
            "refused:min_len>size",
            "refused:held-only-by-reader/region-db",
            "holder:bg-task",
            "reopen",
            "reopen:process-first",
            "closed-with-bg-task",
            "bg-task-failed-and-was-collected",
            "sync_bg_tasks",
        ]
    }

    fn assumptions() -> Vec<String> {
        vec![
            "flock semantics of tmpfs (/dev/shm) equal those of the target filesystem".into(),
            "the last holder flushes before it is dropped, so 'what the holder flushed' is the whole model".into(),
        ]
    }
}
