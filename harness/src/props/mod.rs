pub mod c01;
pub mod c02;
pub mod c03;
pub mod c04;
pub mod c07;
pub mod c13;
pub mod c16;
