//! C20: reads on behalf of a vector never touch bytes outside its region's valid data.
use std::sync::atomic::Ordering;

use proptest::prelude::*;
use proptest::strategy::BoxedStrategy;
use serde::{Deserialize, Serialize};
use vecdb::AnyStoredVec;

use super::readrun::{Crossover, ROp, ReadStats, install_tap, read_req, run_reads, set_crossover, tap_begin, tap_end};
use crate::common::runner::Prop;
use crate::common::{Obs, Tier};
use crate::dispatch_vec;
use crate::vecmodel::reads::VALUES_MATTER;
use crate::vecmodel::{Elem, MATRIX, OpMix, Sut, VecCfg, VecKind, vop_strategy};

#[derive(Clone, Debug, Serialize, Deserialize)]
pub struct Case {
    pub cfg: VecCfg,
    pub crossover: Crossover,
    pub commit_mode: bool,
    pub ops: Vec<ROp>,
}

pub struct P;

fn run_generic<V: VecKind>(case: &Case, obs: &mut Obs) -> Result<(), String>
where
    V::T: Elem,
{
    let cfg = case.cfg;
    let mut sut = Sut::<V>::new(cfg)?;
    sut.commit_mode = case.commit_mode;
    install_tap(&format!("{}/usize", sut.name));
    set_crossover(case.crossover);
    VALUES_MATTER.store(false, Ordering::SeqCst);
    let tag = format!("[{:?}/{}/{:?}]", cfg.fmt, V::T::NAME, case.crossover);
    let mut st = ReadStats::default();
    let mut nontrivial = false;
    let mut result = Ok(());
    for (i, op) in case.ops.iter().enumerate() {
        match op {
            ROp::Plain(op) => {
                // fetches made on behalf of the vector while it executes a mutation (decoding the partial
                // page, collecting the previous values for a change record, ...) are held to the same rule
                tap_begin();
                let r = sut.apply(op, obs);
                let (n, violations) = tap_end();
                obs.count("accesses_checked_during_mutations", n);
                if let Some(v) = violations.first() {
                    result = Err(format!("{tag} op #{i} {op:?}: {v}"));
                    break;
                }
                if let Err(e) = r {
                    result = Err(format!("{tag} op #{i} {op:?}: {e}"));
                    break;
                }
            }
            ROp::Read(req) => {
                let diverged = sut.v().stored_len() != sut.v().real_stored_len();
                tap_begin();
                let r = crate::common::runner::catch_panic(|| run_reads(&sut, req, case.crossover, obs, &mut st, false));
                let (n, violations) = tap_end();
                obs.count("accesses_checked", n);
                if let Some(v) = violations.first() {
                    result = Err(format!("{tag} read #{i} {req:?}: {v}"));
                    break;
                }
                match r {
                    Ok(Ok(())) => {}
                    Ok(Err(e)) => {
                        result = Err(format!("{tag} read #{i} (harness): {e}"));
                        break;
                    }
                    Err(_panic) => {
                        // a panic without an out-of-region access is outside this property (C08 covers panics)
                        obs.label("panic-without-oob-access");
                    }
                }
                if diverged {
                    obs.label("read-while-stored_len!=on-disk");
                    nontrivial = true;
                }
            }
        }
    }
    VALUES_MATTER.store(true, Ordering::SeqCst);
    set_crossover(Crossover::Default);
    rawdb::verif::set_access_tap(None);
    obs.count("read_calls", st.reads);
    if nontrivial {
        obs.set_nontrivial();
    }
    result
}

impl Prop for P {
    type Case = Case;
    const ID: &'static str = "C20";
    const ENGINE: &'static str = "E3-vecmodel + read matrix + access tap (H8)";

    fn cases(tier: Tier) -> u32 {
        tier.pick(12000, 150000)
    }

    fn strategy(tier: Tier) -> BoxedStrategy<Case> {
        let n = tier.pick(24usize, 70);
        (
            0..MATRIX.len(),
            prop_oneof![2 => Just(Crossover::Default), 2 => Just(Crossover::Zero), 1 => Just(Crossover::Bytes64)],
            any::<bool>(),
            prop_oneof![Just(1u16), Just(3), Just(12)],
        )
            .prop_flat_map(move |(ci, crossover, commit_mode, retention)| {
                let (fmt, ty) = MATRIX[ci];
                let mix = OpMix { raw_ops: fmt.is_raw(), rollback_ops: commit_mode, plain_writes: !commit_mode, reimport: true, reset: true };
                let rop = prop_oneof![
                    3 => vop_strategy(mix).prop_map(ROp::Plain),
                    1 => read_req().prop_map(ROp::Read),
                ];
                // 1 in 40 cases starts with a vector longer than one file-IO scan buffer (refill boundary)
                (prop::collection::vec(rop, 0..=n), read_req(), 0u8..40, -8i8..=8).prop_map(move |(mut ops, last, big, d)| {
                    if big == 0 {
                        ops.insert(0, ROp::Plain(crate::vecmodel::VOp::PushRun { n: crate::vecmodel::RunLen::IoBuffer(d), pat: 7 }));
                        ops.insert(1, ROp::Plain(if commit_mode { crate::vecmodel::VOp::Commit { bump: 1 } } else { crate::vecmodel::VOp::Write }));
                    }
                    ops.push(ROp::Read(last));
                    Case { cfg: VecCfg { fmt, ty, retention }, crossover, commit_mode, ops }
                })
            })
            .boxed()
    }

    fn run(case: &Case, obs: &mut Obs) -> Result<(), String> {
        let cfg = case.cfg;
        dispatch_vec!(cfg, run_generic, (case, obs))
    }

    fn rule() -> String {
        "C03 histories (plain writes) and C04 histories (commits / rollbacks, so that the logical length can exceed what is on disk) with the C08 read matrix interleaved, including read-only clones / boxed clones / cached wrappers / point readers taken in those states and both scan back-ends. Oracle: the access tap (hook H8) reports every byte range dereferenced through the memory map or read from the data file (Reader::unchecked_read, pointer reads of the raw formats, bulk copies, IO refills); each must belong to one of the vector's own regions and end at or below that region's current length. Values are NOT compared here. Non-trivial: a read issued while stored_len differs from the on-disk length (after truncation or rollback).".into()
    }

    fn mandatory_labels() -> &'static [&'static str] {
        &["read-while-stored_len!=on-disk", "view:read-only-clone", "backend:file-io", "rollback-ok", "state:holes"]
    }

    fn assumptions() -> Vec<String> {
        vec!["only the call sites instrumented by hook H8 are observed (listed in DESIGN.md §2.3); decompressors work on slices obtained through Reader::unchecked_read, which is instrumented".into()]
    }
}
