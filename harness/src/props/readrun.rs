//! Shared by C08 (values are the oracle) and C20 (the access tap is the oracle):
//! runs the whole read-path matrix on one vector state.
use std::sync::Mutex;
use std::sync::atomic::{AtomicBool, AtomicU64, Ordering};

use proptest::prelude::*;
use serde::{Deserialize, Serialize};
use vecdb::{AnyStoredVec, CachedVec, ReadableCloneableVec, StoredVec};

use crate::common::{Obs, frac};
use crate::vecmodel::reads::{self, View};
use crate::vecmodel::{Elem, Sut, VOp, VecKind};

#[derive(Clone, Copy, Debug, Serialize, Deserialize, PartialEq, Eq)]
pub enum RSel {
    Zero,
    Len,
    LenPlus(u8),
    Frac(u16),
    /// page boundary k (counted from 0) plus delta
    Page(u8, i8),
    StoredEdge(i8),
    Huge,
}

#[derive(Clone, Debug, Serialize, Deserialize)]
pub struct ReadReq {
    pub from: RSel,
    pub to: RSel,
    pub idxs: Vec<RSel>,
    pub salt: u16,
}

#[derive(Clone, Debug, Serialize, Deserialize)]
pub enum ROp {
    Plain(VOp),
    Read(ReadReq),
}

#[derive(Clone, Copy, Debug, Serialize, Deserialize, PartialEq, Eq)]
pub enum Crossover {
    Default,
    Zero,
    Bytes64,
}

pub fn rsel() -> impl Strategy<Value = RSel> {
    prop_oneof![
        2 => Just(RSel::Zero),
        2 => Just(RSel::Len),
        1 => (1u8..5).prop_map(RSel::LenPlus),
        4 => any::<u16>().prop_map(RSel::Frac),
        3 => (0u8..4, -2i8..=2).prop_map(|(k, d)| RSel::Page(k, d)),
        3 => (-3i8..=3).prop_map(RSel::StoredEdge),
        1 => Just(RSel::Huge),
    ]
}

pub fn read_req() -> impl Strategy<Value = ReadReq> {
    (rsel(), rsel(), prop::collection::vec(rsel(), 0..6), any::<u16>())
        .prop_map(|(from, to, idxs, salt)| ReadReq { from, to, idxs, salt })
}

pub fn resolve(s: RSel, len: usize, stored: usize, pp: usize) -> usize {
    match s {
        RSel::Zero => 0,
        RSel::Len => len,
        RSel::LenPlus(k) => len + k as usize,
        RSel::Frac(f) => frac(f, len),
        RSel::Page(k, d) => ((k as usize * pp) as i64 + d as i64).max(0) as usize,
        RSel::StoredEdge(d) => (stored as i64 + d as i64).max(0) as usize,
        RSel::Huge => usize::MAX,
    }
}

pub fn set_crossover(c: Crossover) {
    rawdb::verif::set_crossover_bytes(match c {
        Crossover::Default => None,
        Crossover::Zero => Some(0),
        Crossover::Bytes64 => Some(64),
    });
}

// ------------------------------------------------------------------ access tap

static TAP_ACTIVE: AtomicBool = AtomicBool::new(false);
static TAP_ACCESSES: AtomicU64 = AtomicU64::new(0);
static TAP_VIOLATIONS: Mutex<Vec<String>> = Mutex::new(Vec::new());
static OWN_PREFIX: Mutex<String> = Mutex::new(String::new());

fn tap(region_id: &str, offset: usize, len: usize, region_len: usize, via: &'static str) {
    if !TAP_ACTIVE.load(Ordering::Relaxed) {
        return;
    }
    TAP_ACCESSES.fetch_add(1, Ordering::Relaxed);
    let own = OWN_PREFIX.lock().unwrap();
    let own_region = region_id == own.as_str()
        || region_id.strip_prefix(own.as_str()).is_some_and(|r| r == "_pages" || r == "_holes");
    let end = offset.checked_add(len);
    if !own_region || end.is_none_or(|e| e > region_len) {
        let mut v = TAP_VIOLATIONS.lock().unwrap();
        if v.len() < 4 {
            v.push(format!(
                "{via} fetched bytes {offset}..{} of region '{region_id}' whose current length is {region_len}{}",
                end.map(|e| e.to_string()).unwrap_or("overflow".into()),
                if own_region { "" } else { " (not a region of this vector)" }
            ));
        }
    }
}

pub fn install_tap(own_region: &str) {
    *OWN_PREFIX.lock().unwrap() = own_region.to_string();
    rawdb::verif::set_access_tap(Some(tap));
}

pub fn tap_begin() {
    TAP_VIOLATIONS.lock().unwrap().clear();
    TAP_ACTIVE.store(true, Ordering::SeqCst);
}

pub fn tap_end() -> (u64, Vec<String>) {
    TAP_ACTIVE.store(false, Ordering::SeqCst);
    let n = TAP_ACCESSES.swap(0, Ordering::SeqCst);
    (n, std::mem::take(&mut *TAP_VIOLATIONS.lock().unwrap()))
}

// ------------------------------------------------------------------ the matrix

#[derive(Default)]
pub struct ReadStats {
    pub reads: u64,
    pub io_backend: bool,
    pub ro_views: u64,
}

/// `values`: compare values with the model (C08). Otherwise only exercise the paths (C20).
pub fn run_reads<V: VecKind>(sut: &Sut<V>, req: &ReadReq, cross: Crossover, obs: &mut Obs, st: &mut ReadStats, values: bool) -> Result<(), String>
where
    V::T: Elem,
{
    let m = &sut.model;
    let len = m.items.len();
    let pp = sut.per_page();
    let v = sut.v();
    let stored_len = v.stored_len();
    let from = resolve(req.from, len, stored_len, pp);
    let to = resolve(req.to, len, stored_len, pp);
    let mut idxs: Vec<usize> = req.idxs.iter().map(|&s| resolve(s, len, stored_len, pp)).collect();
    idxs.push(from);
    let salt = req.salt as u64;
    let has_holes = m.has_holes();
    if from > to {
        obs.label("range:reversed");
    }
    if to > len {
        obs.label("range:beyond-len");
    }
    if from == to {
        obs.label("range:empty");
    }
    if from < stored_len && to > stored_len {
        obs.label("range:straddles-stored/pushed");
    }
    if to.min(len) > 0 && from / pp != (to.min(len) - 1) / pp && from < to {
        obs.label("range:straddles-pages");
    }
    if has_holes {
        obs.label("state:holes");
    }
    if v.pushed_len() > 0 && stored_len > 0 {
        obs.label("state:stored+pushed");
    }
    if stored_len != v.real_stored_len() {
        obs.label("state:stored_len!=on-disk");
    }
    if cross != Crossover::Default && from < to && from < stored_len && (cross == Crossover::Zero || (to.min(stored_len) - from) * V::T::SIZE > 64) {
        st.io_backend = true;
        obs.label("backend:file-io");
    }

    // 1. the read-write vector itself: full logical contents
    let view = View { items: &m.items, what: "read-write vector" };
    reads::check_points(v, &view, &idxs, &mut st.reads)?;
    reads::check_range(v, &view, from, to, salt, &mut st.reads)?;
    let skip_cursor = has_holes && crate::common::kf::active("KF-C08-1");
    if skip_cursor {
        obs.exclude("KF-C08-1");
    } else {
        reads::check_cursor(v, &view, &idxs, from, (salt % 97) as usize, &mut st.reads)?;
    }
    // raw-only point APIs
    if let Some(raw) = v.raw() {
        for &i in &idxs {
            st.reads += 1;
            match raw.r_get_any_or_read_at(i) {
                Ok(got) => {
                    if !crate::vecmodel::same_opt(&got, &view.at(i)) {
                        reads::fail(format!("get_any_or_read_at({i}) returned {:?}, reference holds {:?}", got.map(|x| x.show()), view.at(i).map(|x| x.show())))?;
                    }
                }
                Err(e) => reads::fail(format!("get_any_or_read_at({i}) failed: {e}"))?,
            }
        }
        // the holed range read: Some / None per slot, clamped like every other range read
        st.reads += 2;
        let want: Vec<Option<V::T>> = if from.min(len) < to.min(len) { m.items[from.min(len)..to.min(len)].to_vec() } else { vec![] };
        match raw.r_collect_holed_range(from, to) {
            Ok(got) => {
                if got.len() != want.len() || got.iter().zip(&want).any(|(g, w)| !crate::vecmodel::same_opt(g, w)) {
                    reads::fail(format!(
                        "collect_holed_range({from}, {to}) returned {} slots {:?}.., reference holds {} slots {:?}..",
                        got.len(),
                        got.iter().take(6).map(|x| x.as_ref().map(|v| v.show())).collect::<Vec<_>>(),
                        want.len(),
                        want.iter().take(6).map(|x| x.as_ref().map(|v| v.show())).collect::<Vec<_>>()
                    ))?;
                }
            }
            Err(e) => reads::fail(format!("collect_holed_range({from}, {to}) failed: {e}"))?,
        }
        let first_empty = m.items.iter().position(|x| x.is_none()).unwrap_or(len);
        if raw.r_first_empty_index() != first_empty {
            reads::fail(format!("get_first_empty_index() returned {}, the first deleted slot / the length is {first_empty}", raw.r_first_empty_index()))?;
        }
    }

    // 2. stored-only views: read-only clones, boxed clones, cached wrapper, point readers, stored scans.
    //    Values are defined when the stored prefix on disk equals the logical contents
    //    (no pending updates / deleted slots, which these views are documented to ignore).
    let stored_clean = !m.stored_dirty && !has_holes;
    if values && !stored_clean {
        return Ok(());
    }
    if !values {
        // C20: every point API for every index, whatever it returns
        if stored_len > v.real_stored_len() && !sut.cfg.fmt.is_compressed() && crate::common::kf::active("KF-C20-1") {
            // known finding: stored-only views of a raw vector (incl. EagerVec around one) whose logical stored length
            // exceeds the region (after rolling back a truncating commit, before the next write)
            obs.exclude("KF-C20-1");
            return Ok(());
        }
        if let Some(raw) = v.raw() {
            for &i in &idxs {
                st.reads += 1;
                let _ = raw.r_read_at_once(i);
            }
        }
    }
    let stored_items: Vec<Option<V::T>> = m.items[..m.stored.min(len)].to_vec();
    if values && stored_len != stored_items.len() {
        return Err(format!("stored_len() {stored_len} != number of written elements in the model {}", stored_items.len()));
    }
    st.ro_views += 1;
    obs.label("view:read-only-clone");
    let ro = v.read_only_clone();
    let roview = View { items: &stored_items, what: "read-only clone" };
    reads::check_points(&ro, &roview, &idxs, &mut st.reads)?;
    reads::check_range(&ro, &roview, from, to, salt, &mut st.reads)?;
    reads::check_cursor(&ro, &roview, &idxs, from, (salt % 97) as usize, &mut st.reads)?;
    let boxed = v.read_only_boxed_clone();
    let bview = View { items: &stored_items, what: "boxed read-only clone" };
    reads::check_boxed(&boxed, &bview, from, to, &idxs, &mut st.reads)?;
    if salt % 3 == 0 {
        obs.label("view:cached");
        let cached = CachedVec::wrap(v.read_only_clone());
        let cview = View { items: &stored_items, what: "cached wrapper" };
        // twice: first call materialises, second is served from the cache
        reads::check_range(&cached, &cview, from, to, salt, &mut st.reads)?;
        reads::check_points(&cached, &cview, &idxs, &mut st.reads)?;
        reads::check_range(&cached, &cview, from, to, salt ^ 1, &mut st.reads)?;
        reads::check_cursor(&cached, &cview, &idxs, from, (salt % 31) as usize, &mut st.reads)?;
    }
    let want_stored = roview.range(from, to);
    if let Some(raw) = v.raw() {
        st.reads += 4;
        if let Some(d) = crate::vecmodel::first_diff_dense(&raw.r_fold_stored_io(from, to), &want_stored) {
            reads::fail(format!("fold_stored_io({from}, {to}) disagrees with the stored contents: {d}"))?;
        }
        if let Some(d) = crate::vecmodel::first_diff_dense(&raw.r_fold_stored_mmap(from, to), &want_stored) {
            reads::fail(format!("fold_stored_mmap({from}, {to}) disagrees with the stored contents: {d}"))?;
        }
        if raw.r_reader_len() != stored_items.len() {
            reads::fail(format!("VecReader::len() {} != stored elements {}", raw.r_reader_len(), stored_items.len()))?;
        }
        for &i in &idxs {
            st.reads += 2;
            let got = raw.r_reader_try_get(i);
            if !crate::vecmodel::same_opt(&got, &roview.at(i)) {
                reads::fail(format!("VecReader::try_get({i}) returned {:?}, stored contents hold {:?}", got.map(|x| x.show()), roview.at(i).map(|x| x.show())))?;
            }
            // read_at_once: defined for stored indices, refused beyond the length
            if i < stored_items.len() {
                match raw.r_read_at_once(i) {
                    Ok(x) if crate::vecmodel::same_opt(&Some(x), &roview.at(i)) => {}
                    Ok(x) => reads::fail(format!("read_at_once({i}) returned {}, stored contents hold {:?}", x.show(), roview.at(i).map(|x| x.show())))?,
                    Err(e) => reads::fail(format!("read_at_once({i}) failed: {e}"))?,
                }
            } else if i >= len && raw.r_read_at_once(i).is_ok() {
                reads::fail(format!("read_at_once({i}) beyond len {len} returned a value"))?;
            }
            // buffered-or-stored point read (ignores the overlays by contract: compared in the clean state only)
            if let Some(got) = raw.r_get_pushed_or_read_at(i) {
                if !crate::vecmodel::same_opt(&got, &view.at(i)) {
                    reads::fail(format!("get_pushed_or_read_at({i}) returned {:?}, reference holds {:?}", got.map(|x| x.show()), view.at(i).map(|x| x.show())))?;
                }
            }
        }
    }
    for io in [false, true] {
        if let Some(got) = v.comp_fold_stored(io, from, to) {
            st.reads += 1;
            if let Some(d) = crate::vecmodel::first_diff_dense(&got, &want_stored) {
                reads::fail(format!("fold_stored_{}({from}, {to}) disagrees with the stored contents: {d}", if io { "io" } else { "mmap" }))?;
            }
        }
    }
    Ok(())
}

/// C08: a read-only clone taken earlier and kept across mutations. Ok(true) when its values were compared
/// (same condition as for the fresh clones: the stored prefix equals the logical contents).
pub fn check_kept_clone<V: VecKind>(sut: &Sut<V>, old: &vecdb::ReadableBoxedVec<usize, V::T>, req: &ReadReq, st: &mut ReadStats) -> Result<bool, String>
where
    V::T: Elem,
{
    let m = &sut.model;
    if m.stored_dirty || m.has_holes() {
        return Ok(false);
    }
    let len = m.items.len();
    let pp = sut.per_page();
    let stored_len = sut.v().stored_len();
    let from = resolve(req.from, len, stored_len, pp);
    let to = resolve(req.to, len, stored_len, pp);
    let mut idxs: Vec<usize> = req.idxs.iter().map(|&s| resolve(s, len, stored_len, pp)).collect();
    idxs.push(from);
    let stored_items: Vec<Option<V::T>> = m.items[..m.stored.min(len)].to_vec();
    let view = View { items: &stored_items, what: "read-only clone kept across mutations" };
    reads::check_boxed(old, &view, from, to, &idxs, &mut st.reads)?;
    Ok(true)
}

#[allow(dead_code)]
fn _bounds<V: StoredVec + ReadableCloneableVec<usize, <V as vecdb::TypedVec>::T>>() {}
