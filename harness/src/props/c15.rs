//! C15 vecdb: lazy vectors equal their defining formula through every read path (E5).
use std::fmt::Debug;
use std::ops::Add;
use std::sync::Arc;

use proptest::prelude::*;
use proptest::strategy::BoxedStrategy;
use rawdb::Database;
use serde::{Deserialize, Serialize};
use vecdb::{
    AnyStoredVec, AnyVec, BytesVec, DeltaAvg, DeltaChange, DeltaRate, DeltaSub, Divide, Ident, ImportOptions,
    ImportableVec, LZ4Vec, LazyAggVec, LazyDeltaVec, LazyVecFrom1, LazyVecFrom2, LazyVecFrom3, Minus, PcoVec, Plus,
    PrintableIndex, ReadableBoxedVec, ReadableCloneableVec, ReadableVec, Times, VecValue, Version, WritableVec,
};

use crate::common::runner::Prop;
use crate::common::tmp::Scratch;
use crate::common::{Obs, Tier, frac, splitmix64};

// ------------------------------------------------------------------ a second index type

#[derive(Debug, Default, Clone, Copy, PartialEq, Eq, PartialOrd, Ord)]
pub struct Alt(usize);
impl From<usize> for Alt {
    fn from(v: usize) -> Self {
        Alt(v)
    }
}
impl From<Alt> for usize {
    fn from(v: Alt) -> usize {
        v.0
    }
}
impl Add<usize> for Alt {
    type Output = Alt;
    fn add(self, r: usize) -> Alt {
        Alt(self.0 + r)
    }
}
impl PrintableIndex for Alt {
    fn to_string() -> &'static str {
        "alt"
    }
    fn to_possible_strings() -> &'static [&'static str] {
        &["alt"]
    }
}

// ------------------------------------------------------------------ case

#[derive(Clone, Copy, Debug, Serialize, Deserialize, PartialEq, Eq)]
pub enum SFmt {
    Bytes,
    Pco,
    Lz4,
}

#[derive(Clone, Copy, Debug, Serialize, Deserialize, PartialEq, Eq)]
pub enum Kind {
    From1Fn,
    From1Halve,
    From1Ident,
    /// lazy over lazy
    From1Chain,
    From2Fn,
    /// second source has another index type (does not govern the length)
    From2FnAlt,
    From2Plus,
    From2Minus,
    From2Times,
    From2Divide,
    From3Fn,
    From3FnAlt,
    DeltaSub,
    DeltaAvg,
    DeltaChange,
    DeltaRate,
    AggSparse,
}

#[derive(Clone, Debug, Serialize, Deserialize)]
pub struct Read {
    pub from: u16,
    pub to: u16,
    pub beyond: u8,
    pub idxs: Vec<u16>,
    pub salt: u16,
}

#[derive(Clone, Debug, Serialize, Deserialize)]
pub struct Case {
    pub kind: Kind,
    pub fmts: [SFmt; 3],
    /// initial lengths of the three sources
    pub lens: [u16; 3],
    /// elements appended to each source AFTER the lazy vector was built
    pub grow: [u16; 3],
    pub seed: u64,
    /// window starts / first-index mapping: per-index lag seeds; length relative to the source
    pub map_len_delta: i8,
    pub map_seed: u64,
    /// aggregation: allow first indices beyond the end of the source
    pub map_past_end: bool,
    pub reads: Vec<Read>,
}

fn sfmt() -> impl Strategy<Value = SFmt> {
    prop_oneof![Just(SFmt::Bytes), Just(SFmt::Pco), Just(SFmt::Lz4)]
}

fn len_strategy() -> BoxedStrategy<u16> {
    prop_oneof![
        1 => Just(0u16),
        3 => 1u16..20,
        3 => 20u16..300,
        // beyond one cursor chunk (4096) and one compressed page
        2 => 4000u16..4300,
        1 => 4300u16..9000,
    ]
    .boxed()
}

fn kind_strategy() -> BoxedStrategy<Kind> {
    prop_oneof![
        Just(Kind::From1Fn),
        Just(Kind::From1Ident),
        Just(Kind::From1Chain),
        Just(Kind::From2Fn),
        Just(Kind::From2FnAlt),
        Just(Kind::From2Plus),
        Just(Kind::From2Minus),
        Just(Kind::From2Times),
        Just(Kind::From2Divide),
        Just(Kind::From3Fn),
        Just(Kind::From3FnAlt),
        Just(Kind::DeltaSub),
        Just(Kind::DeltaSub),
        Just(Kind::DeltaAvg),
        Just(Kind::DeltaChange),
        Just(Kind::DeltaRate),
        Just(Kind::AggSparse),
        Just(Kind::AggSparse),
    ]
    .boxed()
}

fn read_strategy() -> BoxedStrategy<Read> {
    (any::<u16>(), any::<u16>(), 0u8..4, prop::collection::vec(any::<u16>(), 0..12), any::<u16>())
        .prop_map(|(from, to, beyond, idxs, salt)| Read { from, to, beyond, idxs, salt })
        .boxed()
}

// ------------------------------------------------------------------ value comparison

pub trait LV: VecValue + PartialEq {
    fn same(&self, o: &Self) -> bool {
        self == o
    }
}
impl LV for u64 {}
impl LV for u32 {}
impl LV for Option<u64> {}
impl LV for f64 {
    fn same(&self, o: &Self) -> bool {
        self.to_bits() == o.to_bits() || (self.is_nan() && o.is_nan())
    }
}

fn cmp<T: LV>(what: &str, path: &str, got: &[T], want: &[T]) -> Result<(), String> {
    if got.len() != want.len() {
        return Err(format!("{what}: {path} returned {} elements, the formula gives {}", got.len(), want.len()));
    }
    for (i, (g, w)) in got.iter().zip(want).enumerate() {
        if !g.same(w) {
            return Err(format!("{what}: {path} element #{i} is {g:?}, the formula gives {w:?}"));
        }
    }
    Ok(())
}

fn i64_to_usize(i: i64, len: usize) -> usize {
    if i >= 0 {
        (i as usize).min(len)
    } else {
        let v = len as i64 + i;
        if v < 0 { 0 } else { v as usize }
    }
}

/// `want` = formula values for the indices that are readable (0..L). `reported_len` is what len()
/// must return.
fn matrix<T: LV, R: ReadableVec<usize, T> + ReadableCloneableVec<usize, T>>(
    what: &str,
    r: &R,
    want: &[T],
    reported_len: usize,
    reads: &[Read],
    count: &mut u64,
) -> Result<(), String> {
    let l = want.len();
    if r.len() != reported_len {
        return Err(format!("{what}: len() is {}, governing sources give {reported_len}", r.len()));
    }
    let range = |from: usize, to: usize| -> &[T] {
        let (f, t) = (from.min(l), to.min(l));
        if f >= t { &want[0..0] } else { &want[f..t] }
    };
    *count += 4;
    cmp(what, "collect()", &r.collect(), want)?;
    cmp(what, "collect_dyn()", &r.collect_dyn(), want)?;
    let mut all = vec![];
    r.for_each(|v| all.push(v));
    cmp(what, "for_each()", &all, want)?;
    let boxed: ReadableBoxedVec<usize, T> = r.read_only_boxed_clone();
    if boxed.len() != reported_len {
        return Err(format!("{what}: boxed clone len() is {}, expected {reported_len}", boxed.len()));
    }
    cmp(what, "boxed.collect_dyn()", &boxed.collect_dyn(), want)?;
    let opt_same = |a: &Option<T>, b: Option<&T>| match (a, b) {
        (None, None) => true,
        (Some(x), Some(y)) => x.same(y),
        _ => false,
    };
    if !opt_same(&r.collect_first(), want.first()) {
        return Err(format!("{what}: collect_first() = {:?}, formula gives {:?}", r.collect_first(), want.first()));
    }
    if reported_len == l && !opt_same(&r.collect_last(), want.last()) {
        return Err(format!("{what}: collect_last() = {:?}, formula gives {:?}", r.collect_last(), want.last()));
    }
    for rd in reads {
        let span = l + rd.beyond as usize * 3;
        let (from, to) = (frac(rd.from, span), frac(rd.to, span));
        // requests with to == usize::MAX-ish as well
        let to = if rd.salt % 11 == 0 { usize::MAX } else { to };
        let w = range(from, to);
        let tag = |p: &str| format!("{p}({from}, {to})");
        *count += 12;
        cmp(what, &tag("collect_range_at"), &r.collect_range_at(from, to), w)?;
        cmp(what, &tag("collect_range_dyn"), &r.collect_range_dyn(from, to), w)?;
        cmp(what, &tag("boxed.collect_range_dyn"), &boxed.collect_range_dyn(from, to), w)?;
        let mut buf = vec![];
        r.collect_range_into_at(from, to, &mut buf);
        cmp(what, &tag("collect_range_into_at"), &buf, w)?;
        if let Some(first) = want.first() {
            let mut buf = vec![first.clone()];
            r.read_into_at(from, to, &mut buf);
            if buf.is_empty() || !buf[0].same(first) {
                return Err(format!("{what}: {} overwrote the caller's buffer", tag("read_into_at")));
            }
            cmp(what, &tag("read_into_at"), &buf[1..], w)?;
        }
        let got = r.fold_range_at(from, to, Vec::new(), |mut a, v| {
            a.push(v);
            a
        });
        cmp(what, &tag("fold_range_at"), &got, w)?;
        let got: Result<Vec<T>, ()> = r.try_fold_range_at(from, to, Vec::new(), |mut a, v| {
            a.push(v);
            Ok(a)
        });
        cmp(what, &tag("try_fold_range_at"), &got.unwrap(), w)?;
        if !w.is_empty() {
            let k = rd.salt as usize % w.len();
            let mut seen = vec![];
            let res: Result<(), usize> = r.try_fold_range_at(from, to, (), |(), v| {
                if seen.len() == k {
                    return Err(k);
                }
                seen.push(v);
                Ok(())
            });
            if res != Err(k) {
                return Err(format!("{what}: {} did not stop at the closure's error at position {k}", tag("try_fold_range_at")));
            }
            cmp(what, &tag("try_fold_range_at[prefix before early exit]"), &seen, &w[..k])?;
        }
        let mut got = vec![];
        r.for_each_range_at(from, to, |v| got.push(v));
        cmp(what, &tag("for_each_range_at"), &got, w)?;
        let mut got = vec![];
        r.for_each_range_dyn_at(from, to, &mut |v| got.push(v));
        cmp(what, &tag("for_each_range_dyn_at"), &got, w)?;
        let mut got = vec![];
        boxed.for_each_range_dyn_at(from, to, &mut |v| got.push(v));
        cmp(what, &tag("boxed.for_each_range_dyn_at"), &got, w)?;
        if reported_len == l {
            // signed (python style) ranges are defined relative to len()
            let sf = if rd.salt & 1 == 0 { from.min(1 << 40) as i64 } else { from.min(1 << 40) as i64 - l as i64 };
            let st = if rd.salt & 2 == 0 { to.min(1 << 40) as i64 } else { to.min(1 << 40) as i64 - l as i64 };
            let (ef, et) = (i64_to_usize(sf, l), i64_to_usize(st, l));
            cmp(what, &format!("collect_signed_range({sf}, {st})"), &r.collect_signed_range(Some(sf), Some(st)), range(ef, et))?;
            cmp(what, &format!("collect_signed_range_dyn({sf}, {st})"), &r.collect_signed_range_dyn(Some(sf), Some(st)), range(ef, et))?;
        }
        // index addressed
        let idxs: Vec<usize> = rd.idxs.iter().map(|&i| frac(i, span)).collect();
        for &i in &idxs {
            *count += 2;
            for (p, got) in [("collect_one_at", r.collect_one_at(i)), ("boxed.collect_one_at", boxed.collect_one_at(i))] {
                if !opt_same(&got, want.get(i)) {
                    return Err(format!("{what}: {p}({i}) = {got:?}, the formula gives {:?} (readable length {l})", want.get(i)));
                }
            }
        }
        // sorted reads: ascending, duplicates and out-of-range tails allowed
        let mut sorted = idxs.clone();
        sorted.sort();
        if rd.salt % 3 == 0 && !sorted.is_empty() {
            let d = sorted[rd.salt as usize % sorted.len()];
            sorted.push(d);
            sorted.sort();
        }
        let ws: Vec<T> = sorted.iter().filter_map(|&i| want.get(i).cloned()).collect();
        *count += 4;
        cmp(what, &format!("read_sorted_at({sorted:?})"), &r.read_sorted_at(&sorted), &ws)?;
        cmp(what, &format!("read_sorted({sorted:?})"), &r.read_sorted(&sorted), &ws)?;
        cmp(what, &format!("boxed.read_sorted_at({sorted:?})"), &boxed.read_sorted_at(&sorted), &ws)?;
        if let Some(first) = want.first() {
            let mut out = vec![first.clone()];
            r.read_sorted_into_at(&sorted, &mut out);
            cmp(what, &format!("read_sorted_into_at({sorted:?})"), &out[1..], &ws)?;
        }
        // cursor
        if reported_len == l {
            let mut c = r.cursor();
            for &i in &sorted {
                *count += 1;
                let got = c.get(i);
                if !opt_same(&got, want.get(i)) {
                    return Err(format!("{what}: Cursor::get({i}) = {got:?}, the formula gives {:?}", want.get(i)));
                }
            }
            let mut c = r.cursor();
            c.advance(from);
            let s = from.min(l);
            let n = (rd.salt % 70) as usize;
            let mut got = vec![];
            for _ in 0..n {
                match c.next() {
                    Some(v) => got.push(v),
                    None => break,
                }
            }
            cmp(what, &format!("Cursor::advance({from}) + {n} x next()"), &got, range(s, s + n))?;
            let got = c.fold(n, Vec::new(), |mut a, v| {
                a.push(v);
                a
            });
            cmp(what, &format!("Cursor::fold({n}) after {}", s + n), &got, range((s + n).min(l), (s + 2 * n).min(l)))?;
        }
    }
    Ok(())
}

// ------------------------------------------------------------------ sources

enum Src<I: vecdb::VecIndex, T: vecdb::PcoVecValue + vecdb::BytesVecValue + vecdb::LZ4VecValue> {
    Bytes(BytesVec<I, T>),
    Pco(PcoVec<I, T>),
    Lz4(LZ4Vec<I, T>),
}

macro_rules! each {
    ($s:expr, $v:ident => $e:expr) => {
        match $s {
            Src::Bytes($v) => $e,
            Src::Pco($v) => $e,
            Src::Lz4($v) => $e,
        }
    };
}

impl<I: vecdb::VecIndex, T: vecdb::PcoVecValue + vecdb::BytesVecValue + vecdb::LZ4VecValue> Src<I, T> {
    fn new(db: &Database, name: &str, fmt: SFmt) -> Result<Self, String> {
        let o = ImportOptions::new(db, name, Version::ONE);
        let e = |e: vecdb::Error| format!("import of source {name}: {e}");
        Ok(match fmt {
            SFmt::Bytes => Src::Bytes(BytesVec::import_with(o).map_err(e)?),
            SFmt::Pco => Src::Pco(PcoVec::import_with(o).map_err(e)?),
            SFmt::Lz4 => Src::Lz4(LZ4Vec::import_with(o).map_err(e)?),
        })
    }
    fn extend(&mut self, vals: &[T]) -> Result<(), String> {
        each!(self, v => {
            for x in vals {
                v.push(x.clone());
            }
            v.write().map_err(|e| format!("write of source: {e}"))?;
        });
        Ok(())
    }
    fn boxed(&self) -> ReadableBoxedVec<I, T> {
        each!(self, v => v.read_only_boxed_clone())
    }
}

fn vals_u64(seed: u64, base: usize, n: usize, small: bool) -> Vec<u64> {
    (0..n)
        .map(|i| {
            let h = splitmix64(seed ^ ((base + i) as u64).wrapping_mul(0x9E37_79B9));
            if small {
                h % 1000
            } else {
                match h & 7 {
                    0 => 0,
                    1 => u64::MAX,
                    2 => h >> 40,
                    _ => h,
                }
            }
        })
        .collect()
}

fn vals_u32(seed: u64, base: usize, n: usize) -> Vec<u32> {
    vals_u64(seed, base, n, false).into_iter().map(|v| if v & 3 == 0 { 0 } else { (v >> 13) as u32 }).collect()
}

// index-dependent formulas (plain fn pointers, as the API requires)
fn f1(i: usize, a: u64) -> u64 {
    a.wrapping_mul(31).wrapping_add((i as u64).wrapping_mul(7)) ^ 0x55
}
fn f1b(i: usize, a: u64) -> u64 {
    a.rotate_left((i % 63) as u32).wrapping_sub(i as u64)
}
fn f2(i: usize, a: u64, b: u64) -> u64 {
    a.wrapping_mul(3).wrapping_add(b.rotate_left(7)) ^ (i as u64)
}
fn f3(i: usize, a: u64, b: u64, c: u64) -> u64 {
    a.wrapping_add(b.wrapping_mul(5)).wrapping_sub(c ^ (i as u64).wrapping_mul(11))
}

/// monotone non-decreasing starts with start <= i (or <= i+1 when `allow_empty`)
fn window_starts(seed: u64, n: usize, allow_empty: bool) -> Vec<usize> {
    let mut out = Vec::with_capacity(n);
    let mut prev = 0usize;
    for i in 0..n {
        let h = splitmix64(seed ^ (i as u64).wrapping_mul(0xA24B_AED4));
        let hi = if allow_empty && h % 13 == 0 { i + 1 } else { i };
        // stay, jump to the top, or land somewhere in between
        let s = match h % 5 {
            0 => prev,
            1 => hi,
            _ => prev + (h >> 8) as usize % (hi - prev.min(hi) + 1),
        };
        let s = s.max(prev).min(hi);
        out.push(s);
        prev = s;
    }
    out
}

/// monotone first-index mapping for `groups` groups over a source of `src_len` elements
fn first_indexes(seed: u64, groups: usize, src_len: usize, past_end: bool) -> Vec<usize> {
    let mut out = Vec::with_capacity(groups);
    let mut prev = 0usize;
    let top = if past_end { src_len + 6 } else { src_len };
    for g in 0..groups {
        let h = splitmix64(seed ^ (g as u64).wrapping_mul(0xC2B2_AE3D));
        let step = match h % 6 {
            0 | 1 => 0, // empty group / duplicate first index
            2 => 1,
            3 => (h >> 8) as usize % 4,
            _ => (h >> 8) as usize % (src_len / groups.max(1) * 2 + 2),
        };
        let s = if g == 0 && h % 3 != 0 { 0 } else { (prev + step).min(top) };
        out.push(s);
        prev = s;
    }
    out
}

// ------------------------------------------------------------------ run

fn run_case(case: &Case, obs: &mut Obs) -> Result<(), String> {
    let dir = Scratch::new("c15");
    let db = Database::open(&dir.path().join("db")).map_err(|e| format!("open: {e}"))?;
    let mut count = 0u64;
    let reads = &case.reads;
    let l0 = case.lens.map(|l| l as usize);
    let g = case.grow.map(|l| l as usize);
    let small = matches!(case.kind, Kind::From2Plus | Kind::From2Times | Kind::From2Minus | Kind::From2Divide);
    // model contents of the three u64 sources, initial and final
    let init: Vec<Vec<u64>> = (0..3).map(|k| vals_u64(case.seed + k as u64, 0, l0[k], small)).collect();
    let fin: Vec<Vec<u64>> = (0..3)
        .map(|k| {
            let mut v = init[k].clone();
            v.extend(vals_u64(case.seed + k as u64, l0[k], g[k], small));
            v
        })
        .collect();
    let grew = g.iter().any(|&x| x > 0);
    if grew {
        obs.label("sources-grow-after-build");
    }

    // Two rounds: right after building (initial contents) and after the sources grew.
    macro_rules! two_rounds {
        ($srcs:expr, $lazy:expr, $formula:expr, $replen:expr) => {{
            let lazy = $lazy;
            let want: Vec<_> = $formula(&init);
            matrix("after build", &lazy, &want, $replen(&init, want.len()), reads, &mut count)?;
            for (k, s) in $srcs.iter_mut().enumerate() {
                s.extend(&fin[k][l0[k]..])?;
            }
            let want: Vec<_> = $formula(&fin);
            matrix("after the sources grew", &lazy, &want, $replen(&fin, want.len()), reads, &mut count)?;
        }};
    }
    let same_len = |_: &Vec<Vec<u64>>, l: usize| l;

    match case.kind {
        Kind::From1Fn | Kind::From1Halve | Kind::From1Ident | Kind::From1Chain => {
            let mut s: Vec<Src<usize, u64>> = vec![Src::new(&db, "s0", case.fmts[0])?];
            s[0].extend(&init[0])?;
            match case.kind {
                Kind::From1Fn => two_rounds!(
                    s,
                    LazyVecFrom1::<usize, u64, usize, u64>::init("lz", Version::ONE, s[0].boxed(), f1),
                    |m: &Vec<Vec<u64>>| m[0].iter().enumerate().map(|(i, &a)| f1(i, a)).collect::<Vec<u64>>(),
                    same_len
                ),
                // (Halve / Negate are only defined for signed element types; Ident stands in)
                Kind::From1Ident | Kind::From1Halve => two_rounds!(
                    s,
                    LazyVecFrom1::<usize, u64, usize, u64>::transformed::<Ident>("lz", Version::ONE, s[0].boxed()),
                    |m: &Vec<Vec<u64>>| m[0].clone(),
                    same_len
                ),
                _ => {
                    let inner = LazyVecFrom1::<usize, u64, usize, u64>::init("lz0", Version::ONE, s[0].boxed(), f1);
                    two_rounds!(
                        s,
                        LazyVecFrom1::<usize, u64, usize, u64>::init("lz", Version::ONE, inner.read_only_boxed_clone(), f1b),
                        |m: &Vec<Vec<u64>>| m[0].iter().enumerate().map(|(i, &a)| f1b(i, f1(i, a))).collect::<Vec<u64>>(),
                        same_len
                    )
                }
            }
        }
        Kind::From2Fn | Kind::From2Plus | Kind::From2Minus | Kind::From2Times | Kind::From2Divide => {
            let mut s: Vec<Src<usize, u64>> = vec![Src::new(&db, "s0", case.fmts[0])?, Src::new(&db, "s1", case.fmts[1])?];
            s[0].extend(&init[0])?;
            s[1].extend(&init[1])?;
            if l0[0] + g[0] != l0[1] + g[1] {
                obs.label("unequal-source-lengths");
                obs.set_nontrivial();
            }
            fn zip2(m: &[Vec<u64>], f: impl Fn(usize, u64, u64) -> Option<u64>) -> Vec<u64> {
                let n = m[0].len().min(m[1].len());
                (0..n).map_while(|i| f(i, m[0][i], m[1][i])).collect()
            }
            match case.kind {
                Kind::From2Fn => two_rounds!(
                    s,
                    LazyVecFrom2::<usize, u64, usize, u64, usize, u64>::init("lz", Version::ONE, s[0].boxed(), s[1].boxed(), f2),
                    |m: &Vec<Vec<u64>>| zip2(m, |i, a, b| Some(f2(i, a, b))),
                    same_len
                ),
                // values are < 1000: the shipped arithmetic transforms cannot overflow; divisor 0 excluded below
                Kind::From2Plus => two_rounds!(
                    s,
                    LazyVecFrom2::<usize, u64, usize, u64, usize, u64>::transformed::<Plus>("lz", Version::ONE, s[0].boxed(), s[1].boxed()),
                    |m: &Vec<Vec<u64>>| zip2(m, |_, a, b| Some(a + b)),
                    same_len
                ),
                Kind::From2Times => two_rounds!(
                    s,
                    LazyVecFrom2::<usize, u64, usize, u64, usize, u64>::transformed::<Times>("lz", Version::ONE, s[0].boxed(), s[1].boxed()),
                    |m: &Vec<Vec<u64>>| zip2(m, |_, a, b| Some(a * b)),
                    same_len
                ),
                Kind::From2Minus => {
                    // unsigned subtraction below zero is outside the transform's domain: keep a >= b
                    let mut s2: Vec<Src<usize, u64>> = vec![Src::new(&db, "m0", case.fmts[0])?, Src::new(&db, "m1", case.fmts[1])?];
                    let up = |m: &Vec<Vec<u64>>| -> Vec<Vec<u64>> { vec![m[0].iter().map(|a| a + 1000).collect(), m[1].clone(), vec![]] };
                    let (i2, f2m) = (up(&init), up(&fin));
                    s2[0].extend(&i2[0])?;
                    s2[1].extend(&i2[1])?;
                    let lazy = LazyVecFrom2::<usize, u64, usize, u64, usize, u64>::transformed::<Minus>("lz", Version::ONE, s2[0].boxed(), s2[1].boxed());
                    let want = zip2(&i2, |_, a, b| Some(a - b));
                    matrix("after build", &lazy, &want, want.len(), reads, &mut count)?;
                    s2[0].extend(&f2m[0][l0[0]..])?;
                    s2[1].extend(&f2m[1][l0[1]..])?;
                    let want = zip2(&f2m, |_, a, b| Some(a - b));
                    matrix("after the sources grew", &lazy, &want, want.len(), reads, &mut count)?;
                }
                _ => {
                    let mut s2: Vec<Src<usize, u64>> = vec![Src::new(&db, "d0", case.fmts[0])?, Src::new(&db, "d1", case.fmts[1])?];
                    let up = |m: &Vec<Vec<u64>>| -> Vec<Vec<u64>> { vec![m[0].clone(), m[1].iter().map(|b| b + 1).collect(), vec![]] };
                    let (i2, f2m) = (up(&init), up(&fin));
                    s2[0].extend(&i2[0])?;
                    s2[1].extend(&i2[1])?;
                    let lazy = LazyVecFrom2::<usize, u64, usize, u64, usize, u64>::transformed::<Divide>("lz", Version::ONE, s2[0].boxed(), s2[1].boxed());
                    let want = zip2(&i2, |_, a, b| Some(a / b));
                    matrix("after build", &lazy, &want, want.len(), reads, &mut count)?;
                    s2[0].extend(&f2m[0][l0[0]..])?;
                    s2[1].extend(&f2m[1][l0[1]..])?;
                    let want = zip2(&f2m, |_, a, b| Some(a / b));
                    matrix("after the sources grew", &lazy, &want, want.len(), reads, &mut count)?;
                }
            }
        }
        Kind::From2FnAlt => {
            // source 2 is indexed by another type: it does not govern the length and (precondition) covers it
            let mut s0: Src<usize, u64> = Src::new(&db, "s0", case.fmts[0])?;
            let mut s1: Src<Alt, u64> = Src::new(&db, "s1", case.fmts[1])?;
            let cover = |m: &Vec<Vec<u64>>, seed: u64| -> Vec<u64> {
                let mut v = m[1].clone();
                if v.len() < m[0].len() {
                    let more = vals_u64(seed ^ 0xA17, v.len(), m[0].len() - v.len(), false);
                    v.extend(more);
                }
                v
            };
            let (c_init, c_fin) = (cover(&init, case.seed), {
                let mut v = cover(&init, case.seed);
                let f = cover(&fin, case.seed ^ 1);
                if f.len() > v.len() {
                    v.extend_from_slice(&f[v.len()..]);
                }
                v
            });
            s0.extend(&init[0])?;
            s1.extend(&c_init)?;
            let lazy = LazyVecFrom2::<usize, u64, usize, u64, Alt, u64>::init("lz", Version::ONE, s0.boxed(), s1.boxed(), f2);
            let want: Vec<u64> = init[0].iter().enumerate().map(|(i, &a)| f2(i, a, c_init[i])).collect();
            matrix("after build", &lazy, &want, want.len(), reads, &mut count)?;
            // the non-governing source grows first (it must cover the governing one at all times)
            s1.extend(&c_fin[c_init.len()..])?;
            s0.extend(&fin[0][l0[0]..])?;
            let want: Vec<u64> = fin[0].iter().enumerate().map(|(i, &a)| f2(i, a, c_fin[i])).collect();
            matrix("after the sources grew", &lazy, &want, want.len(), reads, &mut count)?;
            obs.label("non-governing-source");
        }
        Kind::From3Fn => {
            let mut s: Vec<Src<usize, u64>> =
                vec![Src::new(&db, "s0", case.fmts[0])?, Src::new(&db, "s1", case.fmts[1])?, Src::new(&db, "s2", case.fmts[2])?];
            for k in 0..3 {
                s[k].extend(&init[k])?;
            }
            let fl: Vec<usize> = (0..3).map(|k| l0[k] + g[k]).collect();
            if fl[0] != fl[1] || fl[1] != fl[2] {
                obs.label("unequal-source-lengths");
                obs.set_nontrivial();
            }
            two_rounds!(
                s,
                LazyVecFrom3::<usize, u64, usize, u64, usize, u64, usize, u64>::init(
                    "lz",
                    Version::ONE,
                    s[0].boxed(),
                    s[1].boxed(),
                    s[2].boxed(),
                    f3
                ),
                |m: &Vec<Vec<u64>>| {
                    let n = m[0].len().min(m[1].len()).min(m[2].len());
                    (0..n).map(|i| f3(i, m[0][i], m[1][i], m[2][i])).collect::<Vec<u64>>()
                },
                same_len
            );
        }
        Kind::From3FnAlt => {
            let mut s0: Src<usize, u64> = Src::new(&db, "s0", case.fmts[0])?;
            let mut s1: Src<Alt, u64> = Src::new(&db, "s1", case.fmts[1])?;
            let mut s2: Src<usize, u64> = Src::new(&db, "s2", case.fmts[2])?;
            // governing: s0 and s2; s1 covers min(len0, len2)
            let gov = |m: &Vec<Vec<u64>>| m[0].len().min(m[2].len());
            let c_all = vals_u64(case.seed ^ 0xBEEF, 0, gov(&fin).max(gov(&init)) + 3, false);
            let n_init = gov(&init).max(1) + 1;
            s0.extend(&init[0])?;
            s1.extend(&c_all[..n_init.min(c_all.len())])?;
            s2.extend(&init[2])?;
            let lazy =
                LazyVecFrom3::<usize, u64, usize, u64, Alt, u64, usize, u64>::init("lz", Version::ONE, s0.boxed(), s1.boxed(), s2.boxed(), f3);
            let want: Vec<u64> = (0..gov(&init)).map(|i| f3(i, init[0][i], c_all[i], init[2][i])).collect();
            matrix("after build", &lazy, &want, want.len(), reads, &mut count)?;
            s1.extend(&c_all[n_init.min(c_all.len())..])?;
            s0.extend(&fin[0][l0[0]..])?;
            s2.extend(&fin[2][l0[2]..])?;
            let want: Vec<u64> = (0..gov(&fin)).map(|i| f3(i, fin[0][i], c_all[i], fin[2][i])).collect();
            matrix("after the sources grew", &lazy, &want, want.len(), reads, &mut count)?;
            obs.label("non-governing-source");
        }
        Kind::DeltaSub => {
            // cumulative source (non-decreasing), window starts may be i+1 (empty window)
            let cum = |m: &Vec<u64>| -> Vec<u64> {
                let mut acc = 0u64;
                m.iter().map(|v| { acc = acc.wrapping_add(v % 1000); acc }).collect()
            };
            let (ci, cf) = (cum(&init[0]), cum(&fin[0]));
            let mut s: Src<usize, u64> = Src::new(&db, "s0", case.fmts[0])?;
            s.extend(&ci)?;
            let n_starts = (cf.len() as i64 + case.map_len_delta as i64).max(0) as usize;
            let starts = window_starts(case.map_seed, n_starts, true);
            label_starts(&starts, cf.len(), obs);
            let st: Arc<[usize]> = starts.clone().into();
            let lazy = LazyDeltaVec::<usize, u64, u64, DeltaSub>::new("lz", Version::ONE, s.boxed(), Version::ONE, move || st.clone());
            let formula = |c: &Vec<u64>| -> Vec<u64> {
                (0..c.len().min(starts.len()))
                    .map(|h| {
                        let ago = if starts[h] >= 1 { c[starts[h] - 1] } else { 0 };
                        c[h].checked_sub(ago).unwrap_or_default()
                    })
                    .collect()
            };
            let want = formula(&ci);
            delta_round("after build", &lazy, &want, ci.len(), reads, &mut count)?;
            s.extend(&cf[ci.len()..])?;
            let want = formula(&cf);
            delta_round("after the source grew", &lazy, &want, cf.len(), reads, &mut count)?;
        }
        Kind::DeltaAvg | Kind::DeltaChange | Kind::DeltaRate => {
            let to32 = |m: &Vec<u64>| -> Vec<u32> { m.iter().map(|&v| if v & 3 == 0 { 0 } else { (v >> 13) as u32 }).collect() };
            let cum32 = |m: &Vec<u64>| -> Vec<u32> {
                let mut acc = 0u32;
                m.iter().map(|v| { acc = acc.wrapping_add((v % 1000) as u32); acc }).collect()
            };
            let inclusive = case.kind == Kind::DeltaAvg;
            let (ci, cf) = if inclusive { (cum32(&init[0]), cum32(&fin[0])) } else { (to32(&init[0]), to32(&fin[0])) };
            let _ = vals_u32;
            let mut s: Src<usize, u32> = Src::new(&db, "s0", case.fmts[0])?;
            s.extend(&ci)?;
            let n_starts = (cf.len() as i64 + case.map_len_delta as i64).max(0) as usize;
            let starts = window_starts(case.map_seed, n_starts, inclusive);
            label_starts(&starts, cf.len(), obs);
            let st: Arc<[usize]> = starts.clone().into();
            let kind = case.kind;
            let formula = |c: &Vec<u32>| -> Vec<f64> {
                (0..c.len().min(starts.len()))
                    .map(|h| {
                        let start = starts[h];
                        let cur = c[h] as f64;
                        match kind {
                            Kind::DeltaAvg => {
                                let ago = if start >= 1 { c[start - 1] as f64 } else { 0.0 };
                                let cnt = (h + 1).saturating_sub(start);
                                if cnt == 0 { 0.0 } else { (cur - ago) / cnt as f64 }
                            }
                            Kind::DeltaChange => cur - c[start] as f64,
                            _ => {
                                let ago = c[start] as f64;
                                if ago == 0.0 { 0.0 } else { (cur - ago) / ago }
                            }
                        }
                    })
                    .collect()
            };
            macro_rules! go {
                ($op:ty) => {{
                    let lazy = LazyDeltaVec::<usize, u32, f64, $op>::new("lz", Version::ONE, s.boxed(), Version::ONE, move || st.clone());
                    let want = formula(&ci);
                    delta_round("after build", &lazy, &want, ci.len(), reads, &mut count)?;
                    s.extend(&cf[ci.len()..])?;
                    let want = formula(&cf);
                    delta_round("after the source grew", &lazy, &want, cf.len(), reads, &mut count)?;
                }};
            }
            match case.kind {
                Kind::DeltaAvg => go!(DeltaAvg),
                Kind::DeltaChange => go!(DeltaChange),
                _ => go!(DeltaRate),
            }
        }
        Kind::AggSparse => {
            let mut s: Src<usize, u64> = Src::new(&db, "s0", case.fmts[0])?;
            s.extend(&init[0])?;
            let src_final = fin[0].len();
            let groups = (case.lens[1] as usize % 40) + (case.map_len_delta.unsigned_abs() as usize % 5);
            let past_end = case.map_past_end;
            // while the source is still short the mapping (built for the final length) points past its end:
            // that is the "sources grow after the lazy vector was built" situation for an aggregation
            let map = first_indexes(case.map_seed, groups, src_final, past_end);
            let mp: Arc<[usize]> = map.clone().into();
            let lazy = LazyAggVec::<usize, Option<u64>, usize, usize, u64>::new("lz", Version::ONE, Version::ONE, s.boxed(), move || mp.clone());
            let formula = |c: &Vec<u64>| -> Option<Vec<Option<u64>>> {
                let mut out = vec![];
                for gi in 0..map.len() {
                    let cur = map[gi];
                    // a group ends where the next one starts, and never beyond what the source holds
                    // (the open-ended last group is the same rule): Some(last element) iff non-empty
                    let next = map.get(gi + 1).copied().unwrap_or(c.len()).min(c.len());
                    if next == 0 || cur >= next {
                        out.push(None);
                    } else {
                        out.push(Some(c[next - 1]));
                    }
                }
                Some(out)
            };
            let mut empty_groups = 0;
            for gi in 0..map.len() {
                let next = map.get(gi + 1).copied().unwrap_or(src_final);
                if next == 0 || map[gi] >= next {
                    empty_groups += 1;
                }
            }
            if empty_groups > 0 {
                obs.label("agg:empty-group");
                obs.set_nontrivial();
            }
            if map.windows(2).any(|w| w[0] == w[1]) {
                obs.label("agg:duplicate-first-index");
            }
            if map.iter().any(|&m| m > init[0].len()) || map.iter().any(|&m| m > fin[0].len()) {
                obs.label("agg:mapping-past-end");
            }
            if let Some(want) = formula(&init[0]) {
                matrix("after build", &lazy, &want, map.len(), reads, &mut count)?;
            }
            s.extend(&fin[0][l0[0]..])?;
            if let Some(want) = formula(&fin[0]) {
                matrix("after the source grew", &lazy, &want, map.len(), reads, &mut count)?;
            }
        }
    }
    for rd in reads {
        let mut s = rd.idxs.clone();
        s.sort();
        if s.windows(2).any(|w| w[0] == w[1]) || rd.salt % 3 == 0 && !s.is_empty() {
            obs.label("sorted-read-with-duplicates");
            if matches!(case.kind, Kind::DeltaSub | Kind::DeltaAvg | Kind::DeltaChange | Kind::DeltaRate) {
                obs.set_nontrivial();
            }
        }
    }
    obs.count("read_calls", count);
    obs.label(match case.kind {
        Kind::From1Fn | Kind::From1Halve | Kind::From1Ident | Kind::From1Chain => "kind:from1",
        Kind::From2Fn | Kind::From2FnAlt | Kind::From2Plus | Kind::From2Minus | Kind::From2Times | Kind::From2Divide => "kind:from2",
        Kind::From3Fn | Kind::From3FnAlt => "kind:from3",
        Kind::DeltaSub | Kind::DeltaAvg | Kind::DeltaChange | Kind::DeltaRate => "kind:delta",
        Kind::AggSparse => "kind:agg",
    });
    Ok(())
}

fn label_starts(starts: &[usize], src_len: usize, obs: &mut Obs) {
    if starts.len() < src_len {
        obs.label("delta:starts-shorter-than-source");
    }
    if starts.len() > src_len {
        obs.label("delta:starts-longer-than-source");
    }
    if starts.iter().enumerate().any(|(i, &s)| s == i + 1) {
        obs.label("delta:empty-window");
    }
    if starts.windows(2).any(|w| w[0] == w[1]) {
        obs.label("delta:shared-lookback");
    }
}

/// A delta vector whose window-start mapping is shorter than its source: values exist for
/// min(source, starts) indices; len() reports the source length (both are accepted as "the length
/// given by its governing sources": the readable length is what every read path is held to).
fn delta_round<T: LV, R: ReadableVec<usize, T> + ReadableCloneableVec<usize, T>>(
    what: &str,
    lazy: &R,
    want: &[T],
    src_len: usize,
    reads: &[Read],
    count: &mut u64,
) -> Result<(), String> {
    let rep = lazy.len();
    if rep != src_len && rep != want.len() {
        return Err(format!("{what}: len() is {rep}; source has {src_len} elements, {} are computable", want.len()));
    }
    matrix(what, lazy, want, rep, reads, count)
}

pub struct P;

impl Prop for P {
    type Case = Case;
    const ID: &'static str = "C15";
    const ENGINE: &'static str = "E5-lazy";

    fn cases(tier: Tier) -> u32 {
        tier.pick(24000, 400000)
    }

    fn strategy(tier: Tier) -> BoxedStrategy<Case> {
        let nreads = tier.pick(4usize, 8);
        (
            kind_strategy(),
            [sfmt(), sfmt(), sfmt()],
            [len_strategy(), len_strategy(), len_strategy()],
            [prop_oneof![2 => Just(0u16), 3 => 1u16..40, 1 => 40u16..600], prop_oneof![2 => Just(0u16), 3 => 1u16..40, 1 => 40u16..600], prop_oneof![2 => Just(0u16), 3 => 1u16..40, 1 => 40u16..600]],
            any::<u64>(),
            prop_oneof![3 => Just(0i8), 2 => -6i8..0, 2 => 1i8..6],
            any::<u64>(),
            prop::bool::weighted(0.3),
            prop::collection::vec(read_strategy(), 1..=nreads),
        )
            .prop_map(|(kind, fmts, lens, grow, seed, map_len_delta, map_seed, map_past_end, reads)| Case {
                kind,
                fmts,
                lens,
                grow,
                seed,
                map_len_delta,
                map_seed,
                map_past_end,
                reads,
            })
            .boxed()
    }

    fn run(case: &Case, obs: &mut Obs) -> Result<(), String> {
        run_case(case, obs)
    }

    fn rule() -> String {
        "proptest cases: a lazy vector (LazyVecFrom1 with an index-dependent fn / Halve / Ident / lazy-over-lazy; LazyVecFrom2 with fn / Plus / Minus / Times / Divide, also with a second source of another index type; LazyVecFrom3 likewise; LazyDeltaVec x {Sub, Avg, Change, Rate} over generated monotone window starts incl. empty windows and start arrays shorter/longer than the source; LazyAggVec<Sparse> over generated monotone first-index mappings incl. empty groups, index 0, duplicates and, optionally, indices past the end) over stored sources (Bytes/Pco/LZ4, lengths 0..9000 so that cursor chunks and compressed pages are crossed, unequal lengths). The formula is evaluated over the model sources and compared with every read path (collect, ranges incl. to=usize::MAX and beyond the end, into-buffer, fold/try_fold with early exit, for_each, signed ranges, point reads, sorted reads with duplicates and out-of-range tails, cursor get/next/fold, boxed clone) right after construction and again after the sources grew. Non-trivial: unequal source lengths, an aggregation with an empty group, or a sorted read with duplicates on a windowed delta vector.".into()
    }

    fn mandatory_labels() -> &'static [&'static str] {
        &[
            "kind:from1",
            "kind:from2",
            "kind:from3",
            "kind:delta",
            "kind:agg",
            "sources-grow-after-build",
            "unequal-source-lengths",
            "delta:empty-window",
            "delta:starts-shorter-than-source",
            "delta:starts-longer-than-source",
            "delta:shared-lookback",
            "agg:empty-group",
            "agg:mapping-past-end",
            "sorted-read-with-duplicates",
        ]
    }

    fn assumptions() -> Vec<String> {
        vec![
            "sources are read through read-only clones, so their contents are what has been written (write() after every append)".into(),
            "a source whose index type differs from the lazy vector's does not govern the length and is kept at least as long as the governing sources (caller precondition)".into(),
            "window starts are monotone non-decreasing with start <= i (start <= i+1 for the inclusive ops), first-index mappings are monotone non-decreasing".into(),
        ]
    }
}
