//! C01 rawdb: every region reads back exactly its own bytes, across any history.
use proptest::strategy::BoxedStrategy;

use crate::common::runner::Prop;
use crate::common::{Obs, Tier};
use crate::rawmodel::{Checks, History, RawSut, history_strategy};

pub struct P;

impl Prop for P {
    type Case = History;
    const ID: &'static str = "C01";
    const ENGINE: &'static str = "E1-rawmodel";

    fn cases(tier: Tier) -> u32 {
        tier.pick(16000, 120000)
    }

    fn strategy(tier: Tier) -> BoxedStrategy<History> {
        history_strategy(tier.pick(40, 150), true)
    }

    fn run(case: &History, obs: &mut Obs) -> Result<(), String> {
        let mut sut = RawSut::open(
            case.min_len as usize,
            Checks { contents: true, extents: false, placement_rule: false },
        )?;
        for (i, op) in case.ops.iter().enumerate() {
            sut.step(op, obs).map_err(|e| format!("op #{i} {op:?}: {e}"))?;
        }
        if sut.relocations >= 1 && (sut.reuse_of_freed >= 1 || sut.reopens_multi >= 1) {
            obs.set_nontrivial();
        }
        Ok(())
    }

    fn rule() -> String {
        "proptest histories of rawdb region ops (create/append/write_at/truncate/truncate_write/rename/remove/retain/flush/compact/reopen/set_min_regions/sub-range reads) over a 10-name pool with shaped sizes (0, <=64, page±, 2-5 pages, 2^k pages ±2, rare ~1 MiB); after EVERY op all live regions (name set, len, full bytes) are compared with a per-name Vec<u8> model. Non-trivial: history with >=1 relocation AND (>=1 placement into a freed extent OR >=1 reopen with >=2 live regions); distinct by hash of the op list.".into()
    }

    fn mandatory_labels() -> &'static [&'static str] {
        &[
            "place:fits",
            "place:extend-last",
            "place:adjacent-hole",
            "place:relocate-to-hole",
            "place:relocate-to-end",
            "truncate_write:at<len",
            "rename",
            "retain",
            "reopen",
        ]
    }

    fn assumptions() -> Vec<String> {
        vec![
            "reopen is a clean close (no crash): data reaches the next open through the page cache".into(),
            "tmpfs (/dev/shm) behaves like the target filesystem for mmap/ftruncate/fallocate".into(),
        ]
    }
}
