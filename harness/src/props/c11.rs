//! C11: no interleaving of library calls from different threads can deadlock (E6).
use std::collections::BTreeMap;
use std::sync::atomic::{AtomicBool, AtomicUsize, Ordering};
use std::sync::{Arc, Mutex};
use std::time::Duration;

use proptest::prelude::*;
use proptest::strategy::BoxedStrategy;
use rawdb::{Database, Region};
use serde::{Deserialize, Serialize};
use vecdb::{AnyStoredVec, AnyVec, BytesVec, ImportOptions, ImportableVec, LZ4Vec, PcoVec, ReadableVec, StoredVec, Version, WritableVec};

use crate::common::runner::Prop;
use crate::common::tmp::Scratch;
use crate::common::{Obs, Tier, frac, pat_bytes};
use crate::props::c09::fill_file;
use crate::sched;

#[derive(Clone, Copy, Debug, Serialize, Deserialize, PartialEq, Eq)]
pub enum SizeSel {
    Small,
    /// exactly up to the end of the current reserve
    FillReserve,
    /// one byte beyond the current reserve (extend / adjacent hole / relocate)
    Overflow,
    /// several doublings at once
    Big,
}

#[derive(Clone, Copy, Debug, Serialize, Deserialize, PartialEq, Eq)]
pub enum VKind {
    None,
    Bytes,
    Pco,
    Lz4,
}

#[derive(Clone, Copy, Debug, Serialize, Deserialize)]
pub enum VBatch {
    Small(u8),
    ToBoundary(i8),
    Page(i8),
}

#[derive(Clone, Debug, Serialize, Deserialize)]
pub enum Op {
    Write { r: u8, size: SizeSel },
    WriteAt0 { r: u8 },
    Truncate { r: u8 },
    RegionFlush { r: u8 },
    DbFlush,
    Compact,
    /// wait for the background compaction program (sync_bg_tasks)
    SyncBg,
    Create { r: u8 },
    Remove { r: u8 },
    Rename { r: u8 },
    ReaderRead { r: u8 },
    VecPush { n: VBatch },
    VecFlush,
    /// read another program's vector through a read-only clone
    VecReadOther { which: u8, from: u16, to: u16, how: u8 },
    VecReadOwn { from: u16, to: u16 },
}

#[derive(Clone, Debug, Serialize, Deserialize)]
pub struct Case {
    /// per program: kind of vector it owns and its operations
    pub progs: Vec<(VKind, Vec<Op>)>,
    /// an extra program running compact_deferred(0) "in the background"
    pub bg_compact: bool,
    pub fill_file: bool,
    /// regions removed + flushed before the run (holes exist)
    pub holes_before: bool,
    /// program 0's vector starts with 255 full pages (its 4 KiB page-index region is about to grow)
    /// and the file is filled up to its last page
    #[serde(default)]
    pub big_index: bool,
    pub stickiness: u16,
    pub choices: Vec<u16>,
}

enum W {
    Bytes(BytesVec<usize, u64>),
    Pco(PcoVec<usize, u64>),
    Lz4(LZ4Vec<usize, u64>),
}

enum R {
    Bytes(<BytesVec<usize, u64> as StoredVec>::ReadOnly),
    Pco(<PcoVec<usize, u64> as StoredVec>::ReadOnly),
    Lz4(<LZ4Vec<usize, u64> as StoredVec>::ReadOnly),
}

macro_rules! w_each {
    ($w:expr, $v:ident => $e:expr) => {
        match $w {
            W::Bytes($v) => $e,
            W::Pco($v) => $e,
            W::Lz4($v) => $e,
        }
    };
}
macro_rules! r_each {
    ($w:expr, $v:ident => $e:expr) => {
        match $w {
            R::Bytes($v) => $e,
            R::Pco($v) => $e,
            R::Lz4($v) => $e,
        }
    };
}

const PP: usize = 2048; // 16 KiB / 8 bytes

#[derive(Default)]
struct Shared {
    relocated: AtomicBool,
    file_grew: AtomicBool,
    ops_done: AtomicUsize,
    errors: Mutex<Vec<String>>,
}

fn size_of_write(sel: SizeSel, r: &Region) -> usize {
    let (len, res) = {
        let m = r.meta();
        (m.len(), m.reserved())
    };
    match sel {
        SizeSel::Small => 37,
        SizeSel::FillReserve => res - len,
        SizeSel::Overflow => res - len + 1,
        SizeSel::Big => res * 3 + 5000,
    }
}

fn run_prog(t: usize, db: Database, mut regions: Vec<Option<Region>>, mut vec: Option<W>, others: Vec<R>, ops: Vec<Op>, bg: Option<usize>, sh: Arc<Shared>) {
    let mut renames = 0u32;
    let mut pushed = vec.as_ref().map_or(0, |w| w_each!(w, v => v.len()));
    for (i, op) in ops.into_iter().enumerate() {
        sched::pause("between-ops");
        let (s0, f0) = (regions.iter().flatten().map(|r| r.meta().start()).collect::<Vec<_>>(), db.file_len());
        match op {
            Op::Write { r, size } => {
                if let Some(reg) = &regions[r as usize % 3] {
                    let n = size_of_write(size, reg);
                    let _ = reg.write(&pat_bytes(t as u8 + 1, i * 7919, n));
                }
            }
            Op::WriteAt0 { r } => {
                if let Some(reg) = &regions[r as usize % 3] {
                    let n = reg.meta().len().min(64);
                    let _ = reg.write_at(&pat_bytes(t as u8 + 1, i, n), 0);
                }
            }
            Op::Truncate { r } => {
                if let Some(reg) = &regions[r as usize % 3] {
                    let l = reg.meta().len();
                    let _ = reg.truncate(l / 2);
                }
            }
            Op::RegionFlush { r } => {
                if let Some(reg) = &regions[r as usize % 3] {
                    let _ = reg.flush();
                }
            }
            Op::DbFlush => {
                let _ = db.flush();
            }
            Op::Compact => {
                let _ = db.compact();
            }
            Op::SyncBg => {
                if let Some(b) = bg {
                    sched::join(b);
                }
            }
            Op::Create { r } => {
                let k = r as usize % 3;
                if regions[k].is_none() {
                    regions[k] = db.create_region_if_needed(&format!("p{t}r{k}n{i}")).ok();
                }
            }
            Op::Remove { r } => {
                if let Some(reg) = regions[r as usize % 3].take() {
                    let _ = reg.remove();
                }
            }
            Op::Rename { r } => {
                if let Some(reg) = &regions[r as usize % 3] {
                    renames += 1;
                    let _ = reg.rename(&format!("p{t}renamed{renames}"));
                }
            }
            Op::ReaderRead { r } => {
                if let Some(reg) = &regions[r as usize % 3] {
                    let reader = reg.create_reader();
                    let _ = reader.read_all().len();
                    drop(reader);
                }
            }
            Op::VecPush { n } => {
                if let Some(w) = vec.as_mut() {
                    let n = match n {
                        VBatch::Small(k) => k as usize,
                        VBatch::ToBoundary(d) => ((PP - pushed % PP) as i64 + d as i64).max(0) as usize,
                        VBatch::Page(d) => (PP as i64 + d as i64) as usize,
                    };
                    w_each!(w, v => {
                        for k in 0..n {
                            // incompressible values: a compressed page then takes ~16 KiB, so that page-sized batches
                            // outgrow the data region's reservation (and, with a filled file, make the file grow)
                            v.push(crate::common::splitmix64((pushed + k) as u64));
                        }
                        if let Err(e) = v.write() {
                            sh.errors.lock().unwrap().push(format!("program {t}: vector write failed: {e}"));
                        }
                    });
                    pushed += n;
                }
            }
            Op::VecFlush => {
                if let Some(w) = vec.as_mut() {
                    w_each!(w, v => { let _ = v.flush(); });
                }
            }
            Op::VecReadOther { which, from, to, how } => {
                if !others.is_empty() {
                    let ro = &others[which as usize % others.len()];
                    r_each!(ro, v => {
                        let l = v.len();
                        let (f, tt) = (frac(from, l), frac(to, l + 1));
                        match how % 4 {
                            0 => { let _ = v.collect_range_at(f, tt); }
                            1 => { let _ = v.fold_range_at(f, tt, 0u64, |a, x| a.wrapping_add(x)); }
                            2 => { let mut c = v.cursor(); c.advance(f); let _ = c.next(); }
                            _ => { let _ = v.collect_one_at(f); }
                        }
                    });
                }
            }
            Op::VecReadOwn { from, to } => {
                if let Some(w) = vec.as_ref() {
                    w_each!(w, v => {
                        let l = v.len();
                        let _ = v.collect_range_at(frac(from, l), frac(to, l + 1));
                    });
                }
            }
        }
        sh.ops_done.fetch_add(1, Ordering::Relaxed);
        let s1: Vec<usize> = regions.iter().flatten().map(|r| r.meta().start()).collect();
        if s1.len() == s0.len() && s1 != s0 {
            sh.relocated.store(true, Ordering::Relaxed);
        }
        if db.file_len() != f0 {
            sh.file_grew.store(true, Ordering::Relaxed);
        }
    }
}

fn run_case(case: &Case, obs: &mut Obs) -> Result<(), String> {
    let dir = Scratch::new("c11");
    let db = Database::open(&dir.path().join("db")).map_err(|e| format!("open: {e}"))?;
    let n = case.progs.len();
    // prologue: per program two regions with a little data and its vector
    let mut all_regions: Vec<Vec<Option<Region>>> = vec![];
    let mut named: Vec<(String, Region)> = vec![];
    for t in 0..n {
        let mut rs = vec![];
        for k in 0..2 {
            let name = format!("p{t}r{k}");
            let r = db.create_region_if_needed(&name).map_err(|e| format!("prologue create: {e}"))?;
            r.write(&pat_bytes(t as u8 + 1, k, 100 + 3000 * k)).map_err(|e| format!("prologue write: {e}"))?;
            named.push((name, r.clone()));
            rs.push(Some(r));
        }
        rs.push(None);
        all_regions.push(rs);
    }
    if case.holes_before {
        for k in 0..3 {
            let r = db.create_region_if_needed(&format!("gap{k}")).map_err(|e| format!("prologue: {e}"))?;
            r.write(&vec![7u8; 5000 * (k + 1)]).map_err(|e| format!("prologue: {e}"))?;
        }
    }
    let mut vecs: Vec<Option<W>> = vec![];
    for (t, (kind, _)) in case.progs.iter().enumerate() {
        let vname = format!("p{t}v");
        let o = ImportOptions::new(&db, &vname, Version::ONE);
        let e = |e: vecdb::Error| format!("prologue import: {e}");
        let mut w = match kind {
            VKind::None => None,
            VKind::Bytes => Some(W::Bytes(BytesVec::import_with(o).map_err(e)?)),
            VKind::Pco => Some(W::Pco(PcoVec::import_with(o).map_err(e)?)),
            VKind::Lz4 => Some(W::Lz4(LZ4Vec::import_with(o).map_err(e)?)),
        };
        if let Some(w) = w.as_mut() {
            w_each!(w, v => {
                let n0 = if case.big_index && t == 0 { 255 * PP + PP - 3 } else { PP - 3 };
                for k in 0..n0 {
                    // incompressible except in the big-index scenario (255 pages): the first page-sized batch then
                    // outgrows the data region's 32 KiB reservation
                    v.push(if case.big_index { k as u64 } else { crate::common::splitmix64(k as u64 ^ 0xabcd) });
                }
                v.write().map_err(|e| format!("prologue vec write: {e}"))?;
            });
        }
        vecs.push(w);
    }
    if case.holes_before {
        for k in 0..3 {
            if k != 1 {
                let _ = db.remove_region(&format!("gap{k}"));
            }
        }
    }
    db.flush().map_err(|e| format!("prologue flush: {e}"))?;
    if case.fill_file {
        fill_file(&db)?;
    }
    if case.big_index {
        crate::props::c09::fill_file_to(&db, 4096, 0)?;
        obs.label("page-index-region-about-to-grow+file-full");
    }
    let names = sched::lock_names(&db, &named);
    let sh = Arc::new(Shared::default());
    let bg_idx = if case.bg_compact { Some(n) } else { None };
    let mut progs: Vec<sched::Prog> = vec![];
    let ro_of = |w: &W| match w {
        W::Bytes(v) => R::Bytes(v.read_only_clone()),
        W::Pco(v) => R::Pco(v.read_only_clone()),
        W::Lz4(v) => R::Lz4(v.read_only_clone()),
    };
    let mut own: Vec<Option<W>> = vecs;
    let mut ros: Vec<Vec<R>> = (0..n).map(|t| (0..n).filter(|&o| o != t).filter_map(|o| own[o].as_ref().map(ro_of)).collect()).collect();
    for t in 0..n {
        let (db2, regs, w, others, ops, sh2) =
            (db.clone(), std::mem::take(&mut all_regions[t]), own[t].take(), std::mem::take(&mut ros[t]), case.progs[t].1.clone(), sh.clone());
        progs.push(Box::new(move || run_prog(t, db2, regs, w, others, ops, bg_idx, sh2)));
    }
    if case.bg_compact {
        let db2 = db.clone();
        progs.push(Box::new(move || {
            let _ = db2.compact_deferred(Duration::ZERO);
        }));
    }
    let out = sched::run(progs, &case.choices, case.stickiness, names);
    if let Some(m) = &out.inconclusive {
        return Err(format!("INCONCLUSIVE: {m}"));
    }
    obs.count("scheduling_points", out.points as u64);
    obs.count("context_switches", out.switches as u64);
    obs.count("lock_requests_that_had_to_wait", out.contended as u64);
    obs.count("ops_completed", sh.ops_done.load(Ordering::Relaxed) as u64);
    obs.count("points_with>=2_programs_holding_locks", out.both_holding as u64);
    for (a, b) in &out.lock_pairs {
        let strip = |s: &String| s.split('[').next().unwrap_or("").to_string();
        let k: &'static str = Box::leak(format!("order:{}->{}", strip(a), strip(b)).into_boxed_str());
        obs.label(k);
    }
    if out.both_holding > 0 {
        obs.label(">=2-programs-holding-locks-at-once");
        obs.set_nontrivial();
    }
    if out.contended > 0 {
        obs.label("lock-request-had-to-wait");
    }
    if sh.relocated.load(Ordering::Relaxed) {
        obs.label("region-relocated-during-run");
    }
    if sh.file_grew.load(Ordering::Relaxed) {
        obs.label("file-grew-during-run");
    }
    if case.bg_compact {
        obs.label("background-compaction");
    }
    if !out.panics.is_empty() {
        // not this property's claim (C09/C10 decide what a concurrent panic means); counted
        obs.label("a-program-panicked");
    }
    if let Some(d) = &out.deadlock {
        return Err(format!("DEADLOCK: {d}"));
    }
    let _ = BTreeMap::<u8, u8>::new();
    Ok(())
}


fn op_strategy() -> BoxedStrategy<Op> {
    let size = prop_oneof![2 => Just(SizeSel::Small), 2 => Just(SizeSel::FillReserve), 4 => Just(SizeSel::Overflow), 2 => Just(SizeSel::Big)];
    let vb = prop_oneof![3 => (0u8..50).prop_map(VBatch::Small), 3 => (-2i8..=2).prop_map(VBatch::ToBoundary), 1 => (-1i8..=1).prop_map(VBatch::Page)];
    prop_oneof![
        8 => (0u8..3, size).prop_map(|(r, size)| Op::Write { r, size }),
        1 => (0u8..3).prop_map(|r| Op::WriteAt0 { r }),
        1 => (0u8..3).prop_map(|r| Op::Truncate { r }),
        3 => (0u8..3).prop_map(|r| Op::RegionFlush { r }),
        3 => Just(Op::DbFlush),
        3 => Just(Op::Compact),
        1 => Just(Op::SyncBg),
        2 => (0u8..3).prop_map(|r| Op::Create { r }),
        2 => (0u8..3).prop_map(|r| Op::Remove { r }),
        1 => (0u8..3).prop_map(|r| Op::Rename { r }),
        3 => (0u8..3).prop_map(|r| Op::ReaderRead { r }),
        6 => vb.prop_map(|n| Op::VecPush { n }),
        2 => Just(Op::VecFlush),
        6 => (any::<u8>(), any::<u16>(), any::<u16>(), any::<u8>()).prop_map(|(which, from, to, how)| Op::VecReadOther { which, from, to, how }),
        1 => (any::<u16>(), any::<u16>()).prop_map(|(from, to)| Op::VecReadOwn { from, to }),
    ]
    .boxed()
}

pub struct P;

impl Prop for P {
    type Case = Case;
    const ID: &'static str = "C11";
    const ENGINE: &'static str = "E6-sched";

    fn cases(tier: Tier) -> u32 {
        tier.pick(10000, 300000)
    }

    fn strategy(tier: Tier) -> BoxedStrategy<Case> {
        let nops = tier.pick(4usize, 6);
        let vk = prop_oneof![1 => Just(VKind::None), 2 => Just(VKind::Bytes), 3 => Just(VKind::Pco), 2 => Just(VKind::Lz4)];
        (
            prop::collection::vec((vk, prop::collection::vec(op_strategy(), 1..=nops)), 2..=3),
            prop::bool::weighted(0.3),
            prop::bool::weighted(0.4),
            prop::bool::weighted(0.5),
            prop::bool::weighted(0.03),
            prop_oneof![Just(0u16), Just(30000u16), Just(55000u16)],
            prop::collection::vec(any::<u16>(), 0..400),
        )
            .prop_map(|(mut progs, bg_compact, fill_file, mut holes_before, big_index, stickiness, choices)| {
                if big_index {
                    // directed scenario: program 0 owns a compressed vector whose full 4 KiB page index is
                    // about to grow while the file has no room left; somebody reads it concurrently
                    if !matches!(progs[0].0, VKind::Pco | VKind::Lz4) {
                        progs[0].0 = VKind::Lz4;
                    }
                    progs[0].1.insert(0, Op::VecPush { n: VBatch::ToBoundary(2) });
                    progs[1].1.insert(0, Op::VecReadOther { which: 0, from: 100, to: 60000, how: (choices.len() % 4) as u8 });
                    holes_before = false;
                }
                Case { progs, bg_compact, fill_file, holes_before, big_index, stickiness, choices }
            })
            .boxed()
    }

    fn run(case: &Case, obs: &mut Obs) -> Result<(), String> {
        run_case(case, obs)
    }

    fn rule() -> String {
        "2-3 programs x 1-4 (thorough: 6) public-API operations each on one database, executed by the deterministic scheduler (every instrumented lock request and yield point is a scheduling point; the next program comes from a generated choice vector, uniform or sticky): region writes that fit / fill the reserve exactly / overflow it by one byte (in-place extension, adjacent hole, relocation) / grow several doublings (file growth when the file was pre-filled), positional writes, truncation, Region::flush, Database::flush, compact() inline and in an extra 'background' program (compact_deferred(0)) that others join (sync_bg_tasks), region creation / removal / renaming, short-lived Readers, vector push+write()/flush() on raw, Pco and LZ4 vectors at page boundaries, and reads of other programs' vectors through read-only clones (range collect, fold, cursor, point) - with prologues that leave holes and a nearly full file. Oracle: the scheduler's lock model (writer-preferring FIFO read-write locks) must always have an enabled program until all have finished; 'no enabled program' is reported with each program's held locks and the lock it waits for. Non-trivial: a schedule in which >=2 programs held >=1 lock each at the same scheduling point.".into()
    }

    fn mandatory_labels() -> &'static [&'static str] {
        &[
            ">=2-programs-holding-locks-at-once",
            "lock-request-had-to-wait",
            "region-relocated-during-run",
            "file-grew-during-run",
            "background-compaction",
            "order:layout->regions",
            "order:regions->meta",
            "order:mmap->vec-internal",
        ]
    }

    fn assumptions() -> Vec<String> {
        vec![
            "read-write locks are writer-preferring FIFO (a queued writer blocks new readers), as the property states; parking_lot Mutexes (dirty bounds, bg task list) are leaf locks held without blocking and are not modelled".into(),
            "keeping a Reader alive across another call on the same thread is documented misuse and is not generated".into(),
            "run_bg/sync_bg_tasks are represented by an extra scheduled program running compact_deferred(0) and a scheduler-aware join (same lock behaviour, the Condvar wait is skipped)".into(),
        ]
    }

    fn max_shrink_iters(tier: Tier) -> u32 {
        tier.pick(800, 2500)
    }
}
