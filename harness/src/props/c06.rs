//! C06 vecdb: incrementally maintained computed columns equal a from-scratch run (E4).
use proptest::prelude::*;
use proptest::strategy::BoxedStrategy;

use crate::common::runner::Prop;
use crate::common::{Obs, Tier};
use crate::compute::{self, ALL_METHODS, Case, Family, step_strategy, window_strategy};

pub struct P;

impl Prop for P {
    type Case = Case;
    const ID: &'static str = "C06";
    const ENGINE: &'static str = "E4-compute";

    fn cases(tier: Tier) -> u32 {
        tier.pick(16000, 400000)
    }

    fn strategy(tier: Tier) -> BoxedStrategy<Case> {
        let n = tier.pick(6usize, 12);
        (
            0..ALL_METHODS.len(),
            prop_oneof![Just(Family::Raw), Just(Family::Pco)],
            any::<u64>(),
            0u8..60,
            window_strategy(),
            any::<u16>(),
            prop::collection::vec(step_strategy(), 1..=n),
            prop::bool::weighted(0.04),
        )
            .prop_map(|(m, family, seed, initial, window, from_sel, mut steps, big)| {
                if big {
                    // long sources: few steps, no single-element batches
                    steps.truncate(3);
                    for st in &mut steps {
                        if st.batch == compute::BatchSel::K1 || st.batch == compute::BatchSel::K3 {
                            st.batch = compute::BatchSel::K17;
                        }
                    }
                }
                Case { method: ALL_METHODS[m], family, seed, initial, window, from_sel, steps, big }
            })
            .boxed()
    }

    fn run(case: &Case, obs: &mut Obs) -> Result<(), String> {
        compute::run(case, obs)
    }

    fn rule() -> String {
        "one of 52 exact EagerVec methods (transforms compute_to/range/from_index/transform/transform2-4/binary/indirect_sequential/first_per_index; arithmetic add/subtract/multiply/divide/percentage/percentage_difference; cumulative/cumulative_binary/cumulative_transformed_binary/cumulative_count/cumulative_count_from/rolling_count; lookbacks previous_value/change/ratio_change/percentage_change/rolling_change/rolling_ratio_change/rolling_percentage_change/cagr/lookback; windows max/min/sum/rolling_sum/rolling_max|min_from_starts/rolling_median; all_time_high/low/low(exclude_default)/high_from/low_from; zscore; sum|min|max_of_others, weighted_average_of_others; sum|filtered_sum|count|filtered_count_from_indexes) over stored sources (raw or Pco family, unequal lengths, valid preconditions by construction: non-zero divisors, no unsigned underflow, monotone window starts / keys / first indexes) driven through a generated history: initial fill, then steps of {redundant call, every source grows, every source is truncated at a generated index and regrown with different data} with the starting index drawn from {exactly the first changed source index, 1-3 below, a fraction of it, 0}, the write-batch limit (hook H6) from {default, 1, 3, 17 elements}, window from {0,1,2,5,len-1,len,len+5,usize::MAX}, optional flush + re-import of the result. Oracle after EVERY call: collect() equals, bit for bit, the same method evaluated in ONE call with the default batch limit on a fresh EagerVec over the sources' current contents, and its length equals the shortest governing source. Non-trivial: a call resumed at an index > 0 AND a call whose new elements exceed the batch limit (batch boundary inside the call).".into()
    }

    fn mandatory_labels() -> &'static [&'static str] {
        &["resumed-at-index>0", "batch-boundary-inside-a-call", "reimported", "sources-longer-than-one-cursor-chunk"]
    }

    fn assumptions() -> Vec<String> {
        vec![
            "the float methods with lossy resumable state (sma, ema, rma, rolling_average, rolling_sd, expanding_sd, rolling_ema/rma, rolling_ratio) are outside 'exact arithmetic' and are not checked".into(),
            "an Err from the method (e.g. Underflow for window 0 on unsigned sums, invalid cagr days) is a refusal, not a mismatch; such histories end there".into(),
        ]
    }

    fn max_shrink_iters(tier: Tier) -> u32 {
        tier.pick(1500, 4000)
    }
}
