//! C19 vecdb: computed columns are recomputed exactly when input versions change (E4).
use std::cell::RefCell;

use proptest::prelude::*;
use proptest::strategy::BoxedStrategy;
use rawdb::Database;
use serde::{Deserialize, Serialize};
use vecdb::{AnyStoredVec, AnyVec, BytesVec, EagerVec, Exit, ImportableVec, PcoVec, ReadableVec, StoredVec, Version, WritableVec};

use crate::common::runner::{Prop, catch_panic};
use crate::common::tmp::Scratch;
use crate::common::{Obs, Tier, frac, splitmix64};
use crate::compute::{BatchSel, MfSel};

#[derive(Clone, Copy, Debug, Serialize, Deserialize, PartialEq, Eq)]
pub enum Fam {
    /// closures that see the index: compute_to (explicit version), compute_transform, compute_transform2
    To,
    Transform,
    Transform2,
    Transform3,
    Transform4,
    /// closure sees values only: evaluations are counted
    CumulativeTransformedBinary,
    // no closure: outputs only
    Add,
    Cumulative,
    Sum,
    Max,
    SumOfOthers,
    Multiply,
}

#[derive(Clone, Copy, Debug, Serialize, Deserialize)]
pub struct Step {
    /// re-import source 1 / 2 under a new version (its data is replaced by different data)
    pub bump: [bool; 2],
    /// compute_to only: present another explicit version
    pub bump_own: bool,
    pub grow: u8,
    pub max_from: MfSel,
    pub batch: BatchSel,
    pub reimport: bool,
    /// a re-imported source stays empty (its data comes back only with later growth)
    #[serde(default)]
    pub bump_leaves_empty: bool,
    /// the result vector is dropped WITHOUT flush and imported again (a process that stopped)
    #[serde(default)]
    pub drop_without_flush: bool,
    /// the new version is LOWER than the current one (a dependency re-based / swapped)
    #[serde(default)]
    pub down: bool,
    /// index-closure families: this step's call is interrupted - the closure answers with a wrong index at its
    /// k-th evaluation, the call returns an error and whatever it pushed so far stays buffered
    #[serde(default)]
    pub interrupt: Option<u8>,
}

#[derive(Clone, Debug, Serialize, Deserialize)]
pub struct Case {
    pub fam: Fam,
    pub pco: bool,
    pub seed: u64,
    pub initial: u8,
    pub steps: Vec<Step>,
}

struct Src {
    vv: Option<BytesVec<usize, u64>>,
    m: Vec<u64>,
    version: u32,
    name: &'static str,
    gen_no: u64,
}

impl Src {
    fn v(&self) -> &BytesVec<usize, u64> {
        self.vv.as_ref().unwrap()
    }
    fn new(db: &Database, name: &'static str) -> Result<Self, String> {
        Ok(Src { vv: Some(BytesVec::forced_import(db, name, Version::new(1)).map_err(|e| format!("import {name}: {e}"))?), m: vec![], version: 1, name, gen_no: 0 })
    }
    fn val(&self, seed: u64, i: usize) -> u64 {
        // every generation of the data is different at every index (old and new results are distinguishable)
        splitmix64(seed ^ self.gen_no.wrapping_mul(0x9E37_79B9) ^ ((i as u64) << 20) ^ self.name.len() as u64) % 1_000_000 + 1
    }
    fn grow(&mut self, n: usize, seed: u64) -> Result<(), String> {
        for _ in 0..n {
            let x = self.val(seed, self.m.len());
            self.vv.as_mut().unwrap().push(x);
            self.m.push(x);
        }
        self.vv.as_mut().unwrap().write().map_err(|e| format!("source write: {e}"))?;
        Ok(())
    }
    /// a new version of this source: its previous data is discarded (forced import) and replaced
    fn bump(&mut self, db: &Database, seed: u64, leave_empty: bool, down: bool) -> Result<(), String> {
        let n = if leave_empty { 0 } else { self.m.len() };
        if down && self.version > 1 {
            self.version -= 1;
        } else {
            self.version += 1;
        }
        self.gen_no += 1;
        drop(self.vv.take());
        self.vv = Some(BytesVec::forced_import(db, self.name, Version::new(self.version)).map_err(|e| format!("re-import {}: {e}", self.name))?);
        if self.v().len() != 0 {
            return Err(format!("source {} kept {} elements across a version change", self.name, self.v().len()));
        }
        self.m.clear();
        self.grow(n, seed)
    }
}

thread_local! { static LOG: RefCell<Vec<usize>> = const { RefCell::new(vec![]) }; }

fn log(i: usize) {
    LOG.with(|l| l.borrow_mut().push(i));
}

fn run_generic<E>(case: &Case, obs: &mut Obs) -> Result<(), String>
where
    E: StoredVec<I = usize, T = u64>,
{
    let dir = Scratch::new("c19");
    let db = Database::open(&dir.path().join("db")).map_err(|e| format!("open: {e}"))?;
    let exit = Exit::new();
    let mut s1 = Src::new(&db, "s1")?;
    let mut s2 = Src::new(&db, "s22")?;
    let mut s3 = Src::new(&db, "s333")?;
    for s in [&mut s1, &mut s2, &mut s3] {
        s.grow(case.initial as usize, case.seed)?;
    }
    let own = Version::new(5);
    let mut out: EagerVec<E> = EagerVec::forced_import(&db, "out", own).map_err(|e| format!("import result: {e}"))?;
    let mut to_version = 1u32;
    let fam = case.fam;
    let fail_at: std::cell::Cell<Option<usize>> = std::cell::Cell::new(None);
    let evals = std::cell::Cell::new(0usize);
    let wrong = |i: usize| -> bool {
        let n = evals.get();
        evals.set(n + 1);
        fail_at.get() == Some(n) && { let _ = i; true }
    };
    // the call under test; closures log every index they are asked to evaluate
    let call = |out: &mut EagerVec<E>, s1: &Src, s2: &Src, s3: &Src, mf: usize, to_version: u32| -> vecdb::Result<()> {
        match fam {
            Fam::To => out.compute_to(
                mf,
                s1.m.len(),
                Version::new(to_version),
                |i| {
                    if wrong(i) {
                        return (i + 1, 0);
                    }
                    log(i);
                    (i, (i as u64) * 1000 + to_version as u64)
                },
                &exit,
            ),
            Fam::Transform => out.compute_transform(
                mf,
                s1.v(),
                |(i, v, ..)| {
                    if wrong(i) {
                        return (i + 1, 0);
                    }
                    log(i);
                    (i, v * 3 + 1)
                },
                &exit,
            ),
            Fam::Transform2 => out.compute_transform2(
                mf,
                s1.v(),
                s2.v(),
                |(i, a, b, ..)| {
                    if wrong(i) {
                        return (i + 1, 0);
                    }
                    log(i);
                    (i, a * 2 + b)
                },
                &exit,
            ),
            // the two re-importable sources sit in the LAST positions of the three- and four-source families
            Fam::Transform3 => out.compute_transform3(
                mf,
                s3.v(),
                s1.v(),
                s2.v(),
                |(i, _a, b, c, ..)| {
                    if wrong(i) {
                        return (i + 1, 0);
                    }
                    log(i);
                    (i, b * 5 + c)
                },
                &exit,
            ),
            Fam::Transform4 => out.compute_transform4(
                mf,
                s3.v(),
                s3.v(),
                s1.v(),
                s2.v(),
                |(i, _a, _b, c, d, ..)| {
                    if wrong(i) {
                        return (i + 1, 0);
                    }
                    log(i);
                    (i, c * 7 + d * 3)
                },
                &exit,
            ),
            Fam::CumulativeTransformedBinary => {
                let start = mf.min(out.len());
                let mut k = 0usize;
                out.compute_cumulative_transformed_binary(
                    mf,
                    s1.v(),
                    s2.v(),
                    |a: u64, b: u64| {
                        // evaluation order is index order from the resume point (or from 0 after a reset)
                        log(usize::MAX - k);
                        let _ = start;
                        k += 1;
                        a % 1000 + b % 10
                    },
                    &exit,
                )
            }
            Fam::Add => out.compute_add(mf, s1.v(), s2.v(), &exit),
            Fam::Cumulative => out.compute_cumulative(mf, s1.v(), &exit),
            Fam::Sum => out.compute_sum(mf, s1.v(), 3, &exit),
            Fam::Max => out.compute_max(mf, s1.v(), 4, &exit),
            Fam::SumOfOthers => out.compute_sum_of_others(mf, &[s1.v(), s2.v(), s3.v()], &exit),
            Fam::Multiply => out.compute_multiply(mf, s1.v(), s2.v(), &exit),
        }
    };
    let governed = |s1: &Src, s2: &Src, s3: &Src| match fam {
        Fam::To | Fam::Transform | Fam::Cumulative | Fam::Sum | Fam::Max => s1.m.len(),
        Fam::Transform2 | Fam::CumulativeTransformedBinary | Fam::Add | Fam::Multiply => s1.m.len().min(s2.m.len()),
        Fam::SumOfOthers | Fam::Transform3 | Fam::Transform4 => s1.m.len().min(s2.m.len()).min(s3.m.len()),
    };
    let dep_version = |s1: &Src, s2: &Src, s3: &Src, to_version: u32| -> Version {
        let (v1, v2, v3) = (s1.v().version(), s2.v().version(), s3.v().version());
        match fam {
            Fam::To => Version::new(to_version),
            Fam::Transform | Fam::Cumulative | Fam::Max => v1,
            Fam::Sum => Version::new(2) + v1,
            Fam::Transform2 | Fam::CumulativeTransformedBinary | Fam::Add | Fam::Multiply => v1 + v2,
            Fam::SumOfOthers | Fam::Transform3 => v1 + v2 + v3,
            Fam::Transform4 => v3 + v3 + v1 + v2,
        }
    };
    let mut had_change_on_nonempty = false;
    let mut had_unchanged_resume = false;
    let mut last_dep: Option<Version> = None;
    for (si, st) in case.steps.iter().enumerate() {
        let before: Vec<u64> = out.collect();
        // ---- inputs change
        let mut changed = false;
        if st.bump[0] {
            s1.bump(&db, case.seed, st.bump_leaves_empty, st.down)?;
            changed |= matches!(fam, Fam::Transform3 | Fam::Transform4 | Fam::Transform | Fam::Transform2 | Fam::CumulativeTransformedBinary | Fam::Add | Fam::Cumulative | Fam::Sum | Fam::Max | Fam::SumOfOthers | Fam::Multiply);
        }
        if st.bump[1] {
            s2.bump(&db, case.seed, st.bump_leaves_empty, st.down)?;
            changed |= matches!(fam, Fam::Transform3 | Fam::Transform4 | Fam::Transform2 | Fam::CumulativeTransformedBinary | Fam::Add | Fam::SumOfOthers | Fam::Multiply);
        }
        if st.bump_own && fam == Fam::To {
            if st.down && to_version > 1 {
                to_version -= 1;
            } else {
                to_version += 1;
            }
            changed = true;
        }
        for s in [&mut s1, &mut s2, &mut s3] {
            s.grow(st.grow as usize, case.seed)?;
        }
        let dep = dep_version(&s1, &s2, &s3, to_version);
        // "changed" = the combined version presented now differs from the one recorded when the stored
        // results were written (after a drop without flush that can still be an older one)
        let recorded = out.header().computed_version();
        let version_changed = recorded != out.header().vec_version() + dep;
        let _ = last_dep;
        if changed && !version_changed && !before.is_empty() {
            // inputs were replaced but the SUM of the versions is what it was (one went up, one down):
            // by the library's definition the combined version is unchanged, so nothing is owed here and
            // the stored results no longer relate to the inputs; the history ends
            obs.label("version-sum-collision(skipped)");
            return Ok(());
        }
        // the caller passes a starting index as if nothing below had changed
        // (a source that shrank is a change at its new end: the caller starts no later than there)
        let bound = before.len().min(governed(&s1, &s2, &s3));
        let mf = match st.max_from {
            MfSel::AtChange => bound,
            MfSel::Minus(k) => bound.saturating_sub(k as usize),
            MfSel::Frac(f) => frac(f, bound),
            MfSel::Zero => 0,
        };
        LOG.with(|l| l.borrow_mut().clear());
        let sz = std::mem::size_of::<u64>();
        rawdb::verif::set_max_cache_size(match st.batch {
            BatchSel::Default => None,
            BatchSel::K1 => Some(sz),
            BatchSel::K3 => Some(3 * sz),
            BatchSel::K17 => Some(17 * sz),
        });
        if let Some(k) = st.interrupt
            && matches!(fam, Fam::To | Fam::Transform | Fam::Transform2 | Fam::Transform3 | Fam::Transform4)
        {
            // an interrupted call: it may validate the version (and reset) and push some results, then fails.
            // Nothing is asserted about it; the following steps see whatever it left in the buffer.
            fail_at.set(Some(k as usize));
            evals.set(0);
            let r = catch_panic(|| call(&mut out, &s1, &s2, &s3, mf, to_version));
            let triggered = evals.get() > k as usize;
            fail_at.set(None);
            rawdb::verif::set_max_cache_size(None);
            match r {
                Ok(Ok(())) if triggered => {
                    // the wrong index was accepted: the contents are no longer defined by the formula
                    obs.label("interrupt:wrong-index-accepted(history ends)");
                    return Ok(());
                }
                Ok(Ok(())) => {} // fewer evaluations than k: an ordinary call whose result the next step inspects
                _ => {
                    obs.label("interrupted-compute");
                    if out.stored_len() == 0 && out.len() > 0 {
                        obs.label("interrupted-compute-left-unstored-results");
                    }
                }
            }
            continue;
        }
        let r = catch_panic(|| call(&mut out, &s1, &s2, &s3, mf, to_version));
        rawdb::verif::set_max_cache_size(None);
        match r {
            Err(p) => return Err(format!("{fam:?} step #{si} {st:?}: compute panicked: {p}")),
            Ok(Err(e)) => return Err(format!("{fam:?} step #{si} {st:?}: compute failed: {e}")),
            Ok(Ok(())) => {}
        }
        last_dep = Some(dep);
        let logged: Vec<usize> = LOG.with(|l| l.borrow().clone());
        let after: Vec<u64> = out.collect();
        let want_len = governed(&s1, &s2, &s3);
        let ctx = || format!("{fam:?} [{}] step #{si} {st:?} (max_from {mf}, {} stored before, combined version {})", if case.pco { "Pco" } else { "Raw" }, before.len(), if version_changed { "CHANGED" } else { "unchanged" });
        // ---- from-scratch reference under the current inputs
        let mut fresh: EagerVec<E> = EagerVec::forced_import(&db, &format!("ref{si}"), own).map_err(|e| format!("import ref: {e}"))?;
        LOG.with(|l| l.borrow_mut().clear());
        call(&mut fresh, &s1, &s2, &s3, 0, to_version).map_err(|e| format!("{}: reference failed: {e}", ctx()))?;
        let want: Vec<u64> = fresh.collect();
        let _ = fresh.remove();
        if after.len() != want_len || want.len() != want_len {
            return Err(format!("{}: result has {} elements (from scratch {}), the governing sources give {want_len}", ctx(), after.len(), want.len()));
        }
        if version_changed {
            // everything stored under the old version must be gone: the result is the from-scratch result
            // under the new inputs (old and new data differ at every index, so a kept element is visible)
            if let Some(i) = (0..want.len()).find(|&i| after[i] != want[i]) {
                let stale = before.get(i) == Some(&after[i]);
                return Err(format!(
                    "{}: element {i} is {} after the call, recomputing under the new version gives {}{}",
                    ctx(),
                    after[i],
                    want[i],
                    if stale { " (it is the value stored under the OLD version: results of different versions are mixed)" } else { "" }
                ));
            }
            match fam {
                Fam::To | Fam::Transform | Fam::Transform2 | Fam::Transform3 | Fam::Transform4 => {
                    let mut seen = logged.clone();
                    seen.sort();
                    seen.dedup();
                    if seen != (0..want_len).collect::<Vec<_>>() {
                        return Err(format!("{}: after a version change the closure was evaluated for indices {:?}..., not for all of 0..{want_len}", ctx(), &seen[..seen.len().min(6)]));
                    }
                }
                Fam::CumulativeTransformedBinary => {
                    if logged.len() != want_len {
                        return Err(format!("{}: after a version change {} elements were evaluated, not all {want_len}", ctx(), logged.len()));
                    }
                }
                _ => {}
            }
            if st.down {
                obs.label("version-went-down");
            }
            if !before.is_empty() {
                had_change_on_nonempty = true;
                obs.label("version-changed-on-non-empty-result");
            }
        } else {
            // nothing below min(starting index, stored length) may be re-evaluated or altered
            let keep = mf.min(before.len());
            if let Some(i) = (0..keep.min(after.len())).find(|&i| after[i] != before[i]) {
                return Err(format!("{}: element {i} (below the starting index) changed from {} to {} although the version is unchanged", ctx(), before[i], after[i]));
            }
            match fam {
                Fam::To | Fam::Transform | Fam::Transform2 | Fam::Transform3 | Fam::Transform4 => {
                    if let Some(&i) = logged.iter().find(|&&i| i < keep) {
                        return Err(format!("{}: index {i} (< min(starting index, stored length) = {keep}) was re-evaluated although the version is unchanged", ctx()));
                    }
                }
                Fam::CumulativeTransformedBinary => {
                    if logged.len() > want_len.saturating_sub(keep) {
                        return Err(format!("{}: {} elements were evaluated, only {} lie at or above min(starting index, stored length) = {keep}", ctx(), logged.len(), want_len - keep));
                    }
                }
                _ => {}
            }
            if after != want {
                let i = (0..want.len()).find(|&i| after[i] != want[i]).unwrap_or(0);
                return Err(format!("{}: element {i} is {} after the call, {} from scratch", ctx(), after[i], want[i]));
            }
            if keep > 0 && want_len > keep {
                had_unchanged_resume = true;
                obs.label("unchanged-version-resume");
            }
        }
        // ---- the recorded version
        let expect = out.header().vec_version() + dep;
        if out.header().computed_version() != expect {
            return Err(format!("{}: recorded computed version {:?} != own version + dependency versions {:?}", ctx(), out.header().computed_version(), expect));
        }
        if st.drop_without_flush && !st.reimport {
            // the process stops here: whatever compute() wrote is on disk, nothing else
            drop(out);
            out = EagerVec::import(&db, "out", own).map_err(|e| format!("{}: import after a drop without flush failed: {e}", ctx()))?;
            obs.label("dropped-without-flush-and-imported");
        }
        if st.reimport {
            out.flush().map_err(|e| format!("flush: {e}"))?;
            drop(out);
            out = EagerVec::import(&db, "out", own).map_err(|e| format!("{}: re-import of the result failed: {e}", ctx()))?;
            if out.header().computed_version() != expect {
                return Err(format!("{}: the recorded version did not survive flush + re-import: {:?} != {:?}", ctx(), out.header().computed_version(), expect));
            }
            if out.collect() != after {
                return Err(format!("{}: contents changed across flush + re-import", ctx()));
            }
            obs.label("reimported");
        }
    }
    if had_change_on_nonempty && had_unchanged_resume {
        obs.set_nontrivial();
    }
    Ok(())
}

pub struct P;

impl Prop for P {
    type Case = Case;
    const ID: &'static str = "C19";
    const ENGINE: &'static str = "E4-compute";

    fn cases(tier: Tier) -> u32 {
        tier.pick(16000, 300000)
    }

    fn strategy(tier: Tier) -> BoxedStrategy<Case> {
        let n = tier.pick(7usize, 14);
        let fam = prop_oneof![
            2 => Just(Fam::To),
            2 => Just(Fam::Transform),
            2 => Just(Fam::Transform2),
            1 => Just(Fam::Transform3),
            1 => Just(Fam::Transform4),
            1 => Just(Fam::CumulativeTransformedBinary),
            1 => Just(Fam::Add),
            1 => Just(Fam::Cumulative),
            1 => Just(Fam::Sum),
            1 => Just(Fam::Max),
            1 => Just(Fam::SumOfOthers),
            1 => Just(Fam::Multiply),
        ];
        let step = (
            [prop::bool::weighted(0.25), prop::bool::weighted(0.2)],
            prop::bool::weighted(0.3),
            0u8..30,
            prop_oneof![4 => Just(MfSel::AtChange), 2 => (1u8..4).prop_map(MfSel::Minus), 2 => any::<u16>().prop_map(MfSel::Frac), 1 => Just(MfSel::Zero)],
            prop_oneof![3 => Just(BatchSel::Default), 1 => Just(BatchSel::K1), 2 => Just(BatchSel::K3), 1 => Just(BatchSel::K17)],
            prop::bool::weighted(0.25),
            prop::bool::weighted(0.3),
            prop::bool::weighted(0.25),
            prop::bool::weighted(0.35),
            prop_oneof![6 => Just(None), 1 => (0u8..12).prop_map(Some)],
        )
            .prop_map(|(bump, bump_own, grow, max_from, batch, reimport, bump_leaves_empty, drop_without_flush, down, interrupt)| Step { bump, bump_own, grow, max_from, batch, reimport, bump_leaves_empty, drop_without_flush, down, interrupt });
        (fam, any::<bool>(), any::<u64>(), 0u8..40, prop::collection::vec(step, 2..=n))
            .prop_map(|(fam, pco, seed, initial, steps)| Case { fam, pco, seed, initial, steps })
            .boxed()
    }

    fn run(case: &Case, obs: &mut Obs) -> Result<(), String> {
        if case.pco { run_generic::<PcoVec<usize, u64>>(case, obs) } else { run_generic::<BytesVec<usize, u64>>(case, obs) }
    }

    fn rule() -> String {
        "sequences of compute calls for one representative per compute family (compute_to with an explicit version, compute_transform, compute_transform2, compute_transform3, compute_transform4 (the sources that change version in the last positions), compute_cumulative_transformed_binary, compute_add, compute_cumulative, compute_sum, compute_max, compute_sum_of_others, compute_multiply) on an EagerVec over raw or Pco storage. Between calls: sources are re-imported under a NEW version (forced import; their data is replaced by data that differs at every index), the explicit version changes (compute_to), sources grow; the caller passes a starting index as if nothing below the stored length had changed (at / below it, a fraction, 0); batch limit 1/3/17/default; optional flush + re-import of the result; for the index-closure families 1 call in 7 is interrupted (the closure answers with a wrong index at its k-th evaluation: the call fails and what it pushed stays buffered, unstored). Closures log every index they evaluate. Oracle: combined version changed => the result equals the from-scratch result under the new inputs at every index (an element equal to the value stored under the old version is reported as mixing) and the closure was evaluated for exactly 0..len; version unchanged => no index below min(starting index, stored length) is evaluated and those elements are bit-identical, result equals from scratch; header().computed_version() == own version + dependency versions after every call and after flush + re-import. Non-trivial: a history with a version change on a non-empty result AND an unchanged-version resume.".into()
    }

    fn mandatory_labels() -> &'static [&'static str] {
        &["version-changed-on-non-empty-result", "unchanged-version-resume", "reimported", "dropped-without-flush-and-imported", "version-went-down", "interrupted-compute-left-unstored-results"]
    }

    fn assumptions() -> Vec<String> {
        vec!["a source's version changes only through a forced re-import, which also discards its data (as the library defines it)".into()]
    }
}
