//! C13: an operation that reports an error has no effect.
use std::collections::BTreeMap;

use proptest::prelude::*;
use proptest::strategy::BoxedStrategy;
use rawdb::Database;
use serde::{Deserialize, Serialize};
use vecdb::{AnyStoredVec, BytesVec, ImportOptions, ImportableVec, LZ4Vec, Version, WritableVec, ZstdVec};

use crate::common::runner::Prop;
use crate::common::{Obs, Tier, kf, rank};
use crate::dispatch_vec;
use crate::rawmodel::{self, Checks, LayoutSnap, Op, RawSut, op_strategy, short, snapshot_layout};
use crate::vecmodel::{Elem, Fmt, MATRIX, OpMix, Sut, VOp, VecCfg, VecKind, vop_strategy};

#[derive(Clone, Debug, Serialize, Deserialize)]
pub enum Refused {
    WriteBeyond { r: u16, extra: u16, len: u8 },
    TruncateWriteBeyond { r: u16, extra: u16, len: u8 },
    TruncateBeyond { r: u16, extra: u16 },
    RenameOnto { r: u16, other: u16 },
    RemoveMissing { by_if_exists: bool },
    RemoveHeld { r: u16, by_name: bool, holders: u8 },
}

#[derive(Clone, Debug, Serialize, Deserialize)]
pub enum ROp {
    Plain(Op),
    Refused(Refused),
}

#[derive(Clone, Debug, Serialize, Deserialize)]
pub enum VRefused {
    CheckedPushWrong { delta: i8 },
    UpdateBeyond { extra: u8 },
    ImportOtherVersion { bump: u8, forced_after: bool },
    ImportOtherFormat,
    /// forced import under another version while a read-only clone still references the data region:
    /// the removal of the data region is refused, so the forced import fails - and must not have
    /// discarded anything (e.g. the deleted-slot region) on the way
    ForcedImportHeld,
    /// commit mode: a stamp without a change record (plain stamped_write) on top of an older record,
    /// uncommitted edits, then rollback_before: refused (broken chain) and without effect - which the
    /// continuation commit + rollback makes visible. Ends the history.
    RollbackBeforeBrokenChain { seed: u32 },
}

#[derive(Clone, Debug, Serialize, Deserialize)]
pub enum VROp {
    Plain(VOp),
    Refused(VRefused),
}

#[derive(Clone, Debug, Serialize, Deserialize)]
pub enum Case {
    Raw { min_len: u32, ops: Vec<ROp> },
    Vec { cfg: VecCfg, commit_mode: bool, ops: Vec<VROp> },
}

pub struct P;

fn snap_eq(a: &LayoutSnap, b: &LayoutSnap) -> Result<(), String> {
    if a.regions != b.regions {
        return Err(format!("live extents differ: {:?} vs {:?}", brief(&a.regions), brief(&b.regions)));
    }
    if a.holes != b.holes {
        return Err(format!("free extents differ: {:?} vs {:?}", a.holes, b.holes));
    }
    if a.pending != b.pending {
        return Err(format!("pending free extents differ: {:?} vs {:?}", a.pending, b.pending));
    }
    if a.reserved != b.reserved {
        return Err(format!("reservations differ: {:?} vs {:?}", a.reserved, b.reserved));
    }
    if a.layout_len != b.layout_len || a.file_len != b.file_len {
        return Err(format!(
            "allocated area / file length differ: {}/{} vs {}/{}",
            a.layout_len, a.file_len, b.layout_len, b.file_len
        ));
    }
    Ok(())
}

fn brief(v: &[(usize, usize, usize, String)]) -> Vec<(usize, usize, usize, String)> {
    v.iter().map(|(a, b, c, n)| (*a, *b, *c, short(n))).collect()
}

fn run_raw(min_len: u32, ops: &[ROp], obs: &mut Obs) -> Result<(), String> {
    let checks = Checks { contents: true, extents: true, placement_rule: false };
    let mut sut = RawSut::open(min_len as usize, checks.clone())?;
    // twin that never sees the refused calls
    let mut twin = RawSut::open(min_len as usize, Checks { contents: false, extents: false, placement_rule: false })?;
    let mut refused_seen = 0u32;
    let mut effective_after = 0u32;
    let mut flush_after = false;
    let mut nontrivial_refusal = false;
    for (i, rop) in ops.iter().enumerate() {
        match rop {
            ROp::Plain(op) => {
                sut.step(op, obs).map_err(|e| format!("op #{i} {op:?}: {e}"))?;
                let mut o2 = Obs::default();
                twin.step(op, &mut o2).map_err(|e| format!("twin op #{i} {op:?}: {e}"))?;
                let a = snapshot_layout(sut.db());
                let b = snapshot_layout(twin.db());
                snap_eq(&a, &b).map_err(|e| {
                    format!("op #{i} {op:?}: database that saw {refused_seen} refused call(s) diverges from its twin that did not: {e}")
                })?;
                if sut.model != twin.model {
                    return Err(format!("op #{i}: model divergence between twin runs (harness bug)"));
                }
                if refused_seen > 0 {
                    effective_after += 1;
                    if matches!(op, Op::Flush | Op::Compact | Op::Reopen) {
                        flush_after = true;
                    }
                }
            }
            ROp::Refused(r) => {
                let before = snapshot_layout(sut.db());
                let names = sut.live_names();
                let res: Result<Result<(), rawdb::Error>, ()> = match r {
                    Refused::WriteBeyond { r, extra, len } => match sut.pick(*r) {
                        None => Err(()),
                        Some(n) => {
                            let h = sut.db().get_region(&n).unwrap();
                            let cur = h.meta().len();
                            let data = vec![0xA5u8; *len as usize];
                            Ok(h.write_at(&data, cur + 1 + *extra as usize))
                        }
                    },
                    Refused::TruncateWriteBeyond { r, extra, len } => match sut.pick(*r) {
                        None => Err(()),
                        Some(n) => {
                            let h = sut.db().get_region(&n).unwrap();
                            let cur = h.meta().len();
                            let data = vec![0x5Au8; *len as usize];
                            Ok(h.truncate_write(cur + 1 + *extra as usize, &data))
                        }
                    },
                    Refused::TruncateBeyond { r, extra } => match sut.pick(*r) {
                        None => Err(()),
                        Some(n) => {
                            let h = sut.db().get_region(&n).unwrap();
                            let cur = h.meta().len();
                            Ok(h.truncate(cur + 1 + *extra as usize))
                        }
                    },
                    Refused::RenameOnto { r, other } => {
                        if names.len() < 2 {
                            Err(())
                        } else {
                            let a = rank(*r, names.len());
                            let mut b = rank(*other, names.len() - 1);
                            if b >= a {
                                b += 1;
                            }
                            let h = sut.db().get_region(&names[a]).unwrap();
                            Ok(h.rename(&names[b]))
                        }
                    }
                    Refused::RemoveMissing { by_if_exists } => {
                        if *by_if_exists {
                            // remove_region_if_exists on a missing name is Ok by contract: not a refusal
                            Err(())
                        } else {
                            Ok(sut.db().remove_region("no-such-region"))
                        }
                    }
                    Refused::RemoveHeld { r, by_name, holders } => match sut.pick(*r) {
                        None => Err(()),
                        Some(n) => {
                            if kf::active("KF-C13-1") {
                                obs.exclude("KF-C13-1");
                                Err(())
                            } else {
                                let h = sut.db().get_region(&n).unwrap();
                                let extra: Vec<_> = (0..(*holders).clamp(1, 3)).map(|_| h.clone()).collect();
                                let res = if *by_name {
                                    drop(h);
                                    sut.db().remove_region(&n)
                                } else {
                                    h.remove()
                                };
                                drop(extra);
                                obs.label("refused:remove-while-referenced");
                                Ok(res)
                            }
                        }
                    },
                };
                let Ok(res) = res else { continue };
                match res {
                    Ok(()) => return Err(format!("op #{i} {r:?}: the request should have been refused but returned Ok")),
                    Err(_) => {}
                }
                match r {
                    Refused::WriteBeyond { .. } | Refused::TruncateWriteBeyond { .. } => obs.label("refused:write-beyond"),
                    Refused::TruncateBeyond { .. } => obs.label("refused:truncate-beyond"),
                    Refused::RenameOnto { .. } => obs.label("refused:rename-onto-existing"),
                    Refused::RemoveMissing { .. } => obs.label("refused:remove-missing"),
                    Refused::RemoveHeld { .. } => {}
                }
                refused_seen += 1;
                if names.len() >= 2 {
                    nontrivial_refusal = true;
                }
                // immediately afterwards: identical observable state
                let after = snapshot_layout(sut.db());
                snap_eq(&before, &after).map_err(|e| format!("op #{i} {r:?} returned an error but changed the layout: {e}"))?;
                sut.check_contents().map_err(|e| format!("op #{i} {r:?} returned an error but changed contents: {e}"))?;
                rawmodel::check_extents(sut.db()).map_err(|e| format!("op #{i} {r:?} returned an error but broke the extent invariants: {e}"))?;
            }
        }
    }
    if nontrivial_refusal && effective_after >= 3 && flush_after {
        obs.set_nontrivial();
    }
    Ok(())
}

fn region_dump(db: &Database) -> BTreeMap<String, Vec<u8>> {
    let names: Vec<String> = db.regions().id_to_index().keys().cloned().collect();
    let mut out = BTreeMap::new();
    for n in names {
        if let Some(r) = db.get_region(&n) {
            out.insert(n, r.create_reader().read_all().to_vec());
        }
    }
    out
}

fn import_other_format<T: Elem>(db: &Database, name: &str, fmt: Fmt, version: Version) -> Result<(), vecdb::Error> {
    // pick a format of the same family (same internal format version) so the
    // header's version matches and the refusal is about the format
    let raw_version = |v: Version| v; // raw adds 1, compressed adds 3: compensate below
    match fmt {
        Fmt::Bytes | Fmt::EagerBytes | Fmt::ZeroCopy => {
            // stored vec_version = version + 1; LZ4 adds 3 => request version - 2
            let v = Version::new(u32::from(raw_version(version)) - 2);
            LZ4Vec::<usize, T>::import_with(ImportOptions::new(db, name, v)).map(|_| ())
        }
        Fmt::Lz4 => ZstdVec::<usize, T>::import_with(ImportOptions::new(db, name, version)).map(|_| ()),
        Fmt::Pco | Fmt::EagerPco | Fmt::Zstd => LZ4Vec::<usize, T>::import_with(ImportOptions::new(db, name, version)).map(|_| ()),
    }
}

fn run_vec<V: VecKind>(cfg: VecCfg, commit_mode: bool, ops: &[VROp], obs: &mut Obs) -> Result<(), String>
where
    V::T: Elem,
{
    let mut sut = Sut::<V>::new(cfg)?;
    sut.commit_mode = commit_mode;
    let tag = format!("[{:?}/{}/k={}]", cfg.fmt, V::T::NAME, cfg.retention);
    let mut refused = 0u32;
    let mut effective_after = 0u32;
    let mut flush_after = false;
    let mut nontrivial_refusal = false;
    for (i, vrop) in ops.iter().enumerate() {
        match vrop {
            VROp::Plain(op) => {
                let before_refused = obs.labels.contains("rollback-refused");
                let applied = sut.apply(op, obs).map_err(|e| format!("{tag} op #{i} {op:?}: {e}"))?;
                sut.observe().map_err(|e| format!("{tag} after op #{i} {op:?}: {e}"))?;
                if !before_refused && obs.labels.contains("rollback-refused") {
                    refused += 1;
                    if !sut.model.items.is_empty() {
                        nontrivial_refusal = true;
                    }
                } else if applied && refused > 0 {
                    effective_after += 1;
                    if matches!(op, VOp::Flush | VOp::Reimport | VOp::Commit { .. } | VOp::Write) {
                        flush_after = true;
                    }
                }
            }
            VROp::Refused(r) => {
                match r {
                    VRefused::CheckedPushWrong { delta } => {
                        let len = sut.model.items.len();
                        let d = if *delta == 0 { 1 } else { *delta as i64 };
                        let idx = (len as i64 + d).max(0) as usize;
                        if idx == len {
                            continue;
                        }
                        let val = V::T::from_seed(i as u64);
                        match sut.vm().checked_push_at(idx, val) {
                            Err(_) => obs.label("refused:checked-push"),
                            Ok(()) => return Err(format!("{tag} op #{i}: checked_push_at({idx}) with len {len} was accepted")),
                        }
                    }
                    VRefused::UpdateBeyond { extra } => {
                        let len = sut.model.items.len();
                        let idx = len + *extra as usize;
                        let val = V::T::from_seed(i as u64);
                        let Some(raw) = sut.vm().raw_mut() else { continue };
                        match raw.r_update_at(idx, val) {
                            Err(_) => obs.label("refused:update-beyond-len"),
                            Ok(()) => return Err(format!("{tag} op #{i}: update_at({idx}) with len {len} was accepted")),
                        }
                    }
                    VRefused::ImportOtherVersion { bump, forced_after: _ } => {
                        if sut.commit_mode && sut.model.dirty_since_commit {
                            continue;
                        }
                        // flush, drop, try the mismatching import, import properly again
                        sut.vm().flush().map_err(|e| format!("{tag} flush: {e}"))?;
                        sut.db.flush().map_err(|e| format!("{tag} db.flush: {e}"))?;
                        sut.model.stored = sut.model.items.len();
                        drop(sut.vec.take());
                        let before = region_dump(&sut.db);
                        let layout_before = snapshot_layout(&sut.db);
                        let v2 = Version::new(u32::from(sut.version) + 1 + *bump as u32);
                        let res = V::import_with(ImportOptions::new(&sut.db, &sut.name, v2).with_saved_stamped_changes(cfg.retention));
                        match res {
                            Err(vecdb::Error::DifferentVersion { .. }) => obs.label("refused:import-version"),
                            Err(e) => return Err(format!("{tag} op #{i}: import with another version failed with an unexpected error: {e}")),
                            Ok(_) => return Err(format!("{tag} op #{i}: import with another version was accepted")),
                        }
                        let after = region_dump(&sut.db);
                        if before != after {
                            return Err(format!("{tag} op #{i}: refused import (version) changed region contents"));
                        }
                        snap_eq(&layout_before, &snapshot_layout(&sut.db)).map_err(|e| format!("{tag} op #{i}: refused import changed the layout: {e}"))?;
                        let v = Sut::<V>::import(&sut.db, &sut.name, sut.version, cfg.retention, false)?;
                        sut.vec = Some(v);
                    }
                    VRefused::ForcedImportHeld => {
                        if sut.commit_mode && sut.model.dirty_since_commit {
                            continue;
                        }
                        sut.vm().flush().map_err(|e| format!("{tag} flush: {e}"))?;
                        sut.db.flush().map_err(|e| format!("{tag} db.flush: {e}"))?;
                        sut.model.stored = sut.model.items.len();
                        let held = sut.v().read_only_clone();
                        drop(sut.vec.take());
                        let before = region_dump(&sut.db);
                        let layout_before = snapshot_layout(&sut.db);
                        let v2 = Version::new(u32::from(sut.version) + 5);
                        let res = V::forced_import_with(ImportOptions::new(&sut.db, &sut.name, v2).with_saved_stamped_changes(cfg.retention));
                        match res {
                            Err(_) => {
                                obs.label("refused:forced-import-while-clone-held");
                                if !sut.model.holes().is_empty() {
                                    obs.label("refused:forced-import-while-clone-held+holes");
                                }
                                let after = region_dump(&sut.db);
                                if before != after {
                                    let a: Vec<_> = before.keys().collect();
                                    let b: Vec<_> = after.keys().collect();
                                    return Err(format!(
                                        "{tag} op #{i}: a forced import that failed (data region still referenced) changed the regions: {a:?} -> {b:?}"
                                    ));
                                }
                                snap_eq(&layout_before, &snapshot_layout(&sut.db))
                                    .map_err(|e| format!("{tag} op #{i}: failed forced import changed the layout: {e}"))?;
                                drop(held);
                                let v = Sut::<V>::import(&sut.db, &sut.name, sut.version, cfg.retention, false)?;
                                sut.vec = Some(v);
                            }
                            Ok(v) => {
                                // accepted: a real reset (version mismatch) - not a refusal, follow it in the model
                                drop(held);
                                obs.label("forced-import-while-clone-held:accepted");
                                sut.version = v2;
                                sut.model = crate::vecmodel::VModel::new();
                                sut.vec = Some(v);
                                continue;
                            }
                        }
                    }
                    VRefused::RollbackBeforeBrokenChain { seed } => {
                        let s0 = sut.model.stamp;
                        if !sut.commit_mode || sut.model.dirty_since_commit || cfg.retention == 0 || !sut.model.files.contains_key(&s0) {
                            continue;
                        }
                        use vecdb::Stamp;
                        // a newer stamp that has no change record
                        sut.vm().stamped_write(Stamp::new(s0 + 1)).map_err(|e| format!("{tag} op #{i}: stamped_write: {e}"))?;
                        sut.model.stamp = s0 + 1;
                        sut.model.stored = sut.model.items.len();
                        sut.model.unflushed = true;
                        sut.observe().map_err(|e| format!("{tag} op #{i}: after stamped_write: {e}"))?;
                        let committed = sut.model.items.clone();
                        // uncommitted work
                        for k in 0..3u32 {
                            sut.apply(&VOp::Push { seed: seed.wrapping_add(k) }, obs).map_err(|e| format!("{tag} op #{i}: push: {e}"))?;
                        }
                        match sut.vm().rollback_before(Stamp::new(s0)) {
                            Err(_) => obs.label("refused:rollback_before-broken-chain-with-pending-edits"),
                            Ok(_) => return Ok(()), // not a refusal on this tree: nothing to assert
                        }
                        sut.observe().map_err(|e| format!("{tag} op #{i}: the refused rollback_before changed the vector (pending edits included): {e}"))?;
                        // the continuation: commit, then undo it - must land on the state before the commit
                        sut.vm()
                            .stamped_write_with_changes(Stamp::new(s0 + 2))
                            .map_err(|e| format!("{tag} op #{i}: commit after the refused rollback_before failed: {e}"))?;
                        sut.model.stamp = s0 + 2;
                        sut.model.stored = sut.model.items.len();
                        sut.model.dirty_since_commit = false;
                        sut.observe().map_err(|e| format!("{tag} op #{i}: after the commit that follows the refused rollback_before: {e}"))?;
                        sut.vm().rollback().map_err(|e| format!("{tag} op #{i}: rollback of the commit that follows the refused rollback_before failed: {e}"))?;
                        sut.model.items = committed;
                        sut.model.stamp = s0 + 1;
                        sut.model.stored = sut.model.stored.min(sut.model.items.len());
                        sut.model.stored_dirty = true;
                        sut.model.unflushed = true;
                        sut.observe().map_err(|e| {
                            format!("{tag} op #{i}: rolling back the commit made after a REFUSED rollback_before does not restore the state before that commit (the refused call had an effect): {e}")
                        })?;
                        obs.set_nontrivial();
                        return Ok(());
                    }
                    VRefused::ImportOtherFormat => {
                        if sut.commit_mode && sut.model.dirty_since_commit {
                            continue;
                        }
                        sut.vm().flush().map_err(|e| format!("{tag} flush: {e}"))?;
                        sut.db.flush().map_err(|e| format!("{tag} db.flush: {e}"))?;
                        sut.model.stored = sut.model.items.len();
                        drop(sut.vec.take());
                        let before = region_dump(&sut.db);
                        let layout_before = snapshot_layout(&sut.db);
                        match import_other_format::<V::T>(&sut.db, &sut.name, cfg.fmt, sut.version) {
                            Err(vecdb::Error::DifferentFormat { .. }) => obs.label("refused:import-format"),
                            Err(e) => return Err(format!("{tag} op #{i}: import with another format failed with an unexpected error: {e}")),
                            Ok(()) => return Err(format!("{tag} op #{i}: import with another format was accepted")),
                        }
                        let after = region_dump(&sut.db);
                        if before != after {
                            let a: Vec<_> = before.keys().collect();
                            let b: Vec<_> = after.keys().collect();
                            return Err(format!("{tag} op #{i}: refused import (format) changed regions: {a:?} -> {b:?}"));
                        }
                        snap_eq(&layout_before, &snapshot_layout(&sut.db)).map_err(|e| format!("{tag} op #{i}: refused import changed the layout: {e}"))?;
                        let v = Sut::<V>::import(&sut.db, &sut.name, sut.version, cfg.retention, false)?;
                        sut.vec = Some(v);
                    }
                }
                refused += 1;
                if !sut.model.items.is_empty() {
                    nontrivial_refusal = true;
                }
                sut.observe().map_err(|e| format!("{tag} op #{i} {r:?} returned an error but changed the vector: {e}"))?;
            }
        }
    }
    if nontrivial_refusal && effective_after >= 3 && flush_after {
        obs.set_nontrivial();
    }
    let _ = BytesVec::<usize, u32>::import;
    Ok(())
}

fn refused_strategy() -> BoxedStrategy<Refused> {
    prop_oneof![
        3 => (any::<u16>(), prop_oneof![Just(0u16), Just(1), 0u16..5000], any::<u8>()).prop_map(|(r, extra, len)| Refused::WriteBeyond { r, extra, len }),
        2 => (any::<u16>(), prop_oneof![Just(0u16), 0u16..5000], any::<u8>()).prop_map(|(r, extra, len)| Refused::TruncateWriteBeyond { r, extra, len }),
        3 => (any::<u16>(), prop_oneof![Just(0u16), 0u16..5000]).prop_map(|(r, extra)| Refused::TruncateBeyond { r, extra }),
        3 => (any::<u16>(), any::<u16>()).prop_map(|(r, other)| Refused::RenameOnto { r, other }),
        1 => Just(Refused::RemoveMissing { by_if_exists: false }),
        3 => (any::<u16>(), any::<bool>(), 1u8..3).prop_map(|(r, by_name, holders)| Refused::RemoveHeld { r, by_name, holders }),
    ]
    .boxed()
}

impl Prop for P {
    type Case = Case;
    const ID: &'static str = "C13";
    const ENGINE: &'static str = "E1-rawmodel + E3-vecmodel";

    fn cases(tier: Tier) -> u32 {
        tier.pick(24000, 80000)
    }

    fn strategy(tier: Tier) -> BoxedStrategy<Case> {
        let n = tier.pick(30usize, 90);
        let raw = {
            let rop = prop_oneof![
                5 => op_strategy(false).prop_map(ROp::Plain),
                1 => refused_strategy().prop_map(ROp::Refused),
            ];
            (prop_oneof![Just(0u32), Just(1u32 << 20)], prop::collection::vec(rop, 0..=n)).prop_map(|(min_len, ops)| Case::Raw { min_len, ops })
        };
        let vec = (0..MATRIX.len(), prop_oneof![Just(0u16), Just(1), Just(2)], any::<bool>()).prop_flat_map(move |(ci, retention, commit_mode)| {
            let (fmt, ty) = MATRIX[ci];
            // either plain writes or commits/rollbacks (C04: no plain write between commits)
            let mix = OpMix { raw_ops: fmt.is_raw(), rollback_ops: commit_mode, plain_writes: !commit_mode, reimport: true, reset: false };
            let vr = prop_oneof![
                3 => (-3i8..=3).prop_map(|delta| VRefused::CheckedPushWrong { delta }),
                2 => (0u8..5).prop_map(|extra| VRefused::UpdateBeyond { extra }),
                2 => (0u8..3, any::<bool>()).prop_map(|(bump, forced_after)| VRefused::ImportOtherVersion { bump, forced_after }),
                2 => Just(VRefused::ImportOtherFormat),
                2 => Just(VRefused::ForcedImportHeld),
                2 => any::<u32>().prop_map(|seed| VRefused::RollbackBeforeBrokenChain { seed }),
            ];
            let vrop = prop_oneof![
                5 => vop_strategy(mix).prop_map(VROp::Plain),
                1 => vr.prop_map(VROp::Refused),
            ];
            prop::collection::vec(vrop, 0..=n).prop_map(move |ops| Case::Vec { cfg: VecCfg { fmt, ty, retention }, commit_mode, ops })
        });
        prop_oneof![1 => raw, 1 => vec].boxed()
    }

    fn run(case: &Case, obs: &mut Obs) -> Result<(), String> {
        match case {
            Case::Raw { min_len, ops } => {
                obs.label("family:rawdb");
                run_raw(*min_len, ops, obs)
            }
            Case::Vec { cfg, commit_mode, ops } => {
                obs.label("family:vecdb");
                let cfg = *cfg;
                let cm = *commit_mode;
                let ops = &ops[..];
                dispatch_vec!(cfg, run_vec, (cfg, cm, ops, obs))
            }
        }
    }

    fn rule() -> String {
        "C01/C03/C04-style histories with deliberately refused requests interleaved. rawdb: write_at / truncate_write beyond the length, truncate beyond the length, rename onto an existing name, remove_region of a missing name, remove (by handle / by name) while 1-2 extra clones are held; vecdb: checked_push at a wrong index, update at index >= len, import with another version, import with another format (same family so that the format check decides), rollback without a usable change record (retention 0/1/2). Oracle: the call returns Err; immediately afterwards layout snapshot, all region names/lengths/bytes, extent invariants resp. vector contents/holes/stamp equal the state before; every later op is compared with the model and (rawdb) with a twin database that never saw the refused calls (identical layout after every op). Non-trivial: refusal issued with >=2 regions / non-empty vector, followed by >=3 effective ops incl. a flush/commit.".into()
    }

    fn mandatory_labels() -> &'static [&'static str] {
        &[
            "refused:write-beyond",
            "refused:truncate-beyond",
            "refused:rename-onto-existing",
            "refused:remove-missing",
            "refused:remove-while-referenced",
            "refused:checked-push",
            "refused:update-beyond-len",
            "refused:import-version",
            "refused:import-format",
            "rollback-refused",
            "refused:forced-import-while-clone-held",
            "refused:rollback_before-broken-chain-with-pending-edits",
        ]
    }
}
