//! C03 vecdb: every storage format behaves like one reference vector at every step.
use proptest::prelude::*;
use proptest::strategy::BoxedStrategy;
use serde::{Deserialize, Serialize};

use crate::common::runner::Prop;
use crate::common::{Obs, Tier};
use crate::dispatch_vec;
use crate::vecmodel::{Elem, Fmt, MATRIX, OpMix, Sut, Ty, VOp, VecCfg, VecKind, vop_strategy};

#[derive(Clone, Debug, Serialize, Deserialize)]
pub struct Case {
    pub cfg: VecCfg,
    /// second format for the differential run (same element type)
    pub other: Option<Fmt>,
    pub ops: Vec<VOp>,
}

pub struct P;

fn run_one<V: VecKind>(cfg: VecCfg, ops: &[VOp], obs: &mut Obs, raw_ops: bool) -> Result<(Vec<u64>, bool), String>
where
    V::T: Elem,
{
    let mut sut = Sut::<V>::new(cfg)?;
    let mut trace = Vec::with_capacity(ops.len());
    sut.observe().map_err(|e| format!("after import: {e}"))?;
    for (i, op) in ops.iter().enumerate() {
        if !raw_ops && matches!(op, VOp::Update { .. } | VOp::Delete { .. } | VOp::Take { .. } | VOp::FillHole { .. }) {
            continue;
        }
        sut.apply(op, obs).map_err(|e| format!("[{:?}/{}] op #{i} {op:?}: {e}", cfg.fmt, V::T::NAME))?;
        sut.observe().map_err(|e| format!("[{:?}/{}] after op #{i} {op:?}: {e}", cfg.fmt, V::T::NAME))?;
        trace.push(sut.content_hash());
    }
    Ok((trace, sut.wrote_after_divergence || sut.reimport_with_holes))
}

impl Prop for P {
    type Case = Case;
    const ID: &'static str = "C03";
    const ENGINE: &'static str = "E3-vecmodel";

    fn cases(tier: Tier) -> u32 {
        tier.pick(24000, 100000)
    }

    fn strategy(tier: Tier) -> BoxedStrategy<Case> {
        let n = tier.pick(30usize, 100);
        (0..MATRIX.len(), any::<u16>(), any::<bool>())
            .prop_flat_map(move |(ci, other_sel, want_other)| {
                let (fmt, ty) = MATRIX[ci];
                let others: Vec<Fmt> = MATRIX.iter().filter(|&&(f, t)| t == ty && f != fmt).map(|&(f, _)| f).collect();
                let other = if want_other && !others.is_empty() {
                    Some(others[crate::common::rank(other_sel, others.len())])
                } else {
                    None
                };
                let raw_ops = fmt.is_raw();
                let mix = OpMix { raw_ops, rollback_ops: false, plain_writes: true, reimport: true, reset: true };
                prop::collection::vec(vop_strategy(mix), 0..=n).prop_map(move |ops| Case {
                    cfg: VecCfg { fmt, ty, retention: 0 },
                    other,
                    ops,
                })
            })
            .boxed()
    }

    fn run(case: &Case, obs: &mut Obs) -> Result<(), String> {
        let ops = &case.ops[..];
        let cfg = case.cfg;
        let both_raw = case.other.is_none_or(|o| o.is_raw()) && cfg.fmt.is_raw();
        let (trace, nontrivial) = dispatch_vec!(cfg, run_one, (cfg, ops, obs, both_raw))?;
        if nontrivial {
            obs.set_nontrivial();
        }
        if let Some(o) = case.other {
            let cfg2 = VecCfg { fmt: o, ..cfg };
            let mut obs2 = Obs::default();
            let (trace2, _) = dispatch_vec!(cfg2, run_one, (cfg2, ops, &mut obs2, both_raw))?;
            if trace != trace2 {
                let i = trace.iter().zip(&trace2).position(|(a, b)| a != b).unwrap_or(0);
                return Err(format!(
                    "formats {:?} and {:?} driven by the same ops hold different logical contents after op #{i}",
                    cfg.fmt, o
                ));
            }
            obs.label("differential-pair");
        }
        match cfg.fmt {
            Fmt::Bytes => obs.label("fmt:bytes"),
            Fmt::ZeroCopy => obs.label("fmt:zerocopy"),
            Fmt::Pco => obs.label("fmt:pco"),
            Fmt::Lz4 => obs.label("fmt:lz4"),
            Fmt::Zstd => obs.label("fmt:zstd"),
            Fmt::EagerBytes | Fmt::EagerPco => obs.label("fmt:eager"),
        }
        let _ = Ty::U16;
        Ok(())
    }

    fn rule() -> String {
        "proptest op lists (push, runs sized relative to the 16 KiB page capacity, truncate at page/stored boundaries, write, flush, stamped_write, reset, flush+re-import; raw formats: update, delete, take, fill_first_hole_or_push) on one (format, element type) of a 35-entry matrix; after EVERY op len, all elements incl. deleted slots (bit-exact), holes() and stamp are compared with a Vec<Option<T>> model; optionally the same ops run on a second format of the same element type and the per-step content hashes must agree. Non-trivial: history with a write() while stored_len != on-disk length (truncate-below-stored-then-push etc.) OR a re-import with deleted slots.".into()
    }

    fn mandatory_labels() -> &'static [&'static str] {
        &["fmt:bytes", "fmt:zerocopy", "fmt:pco", "fmt:lz4", "fmt:zstd", "fmt:eager", "reimport", "reset", "differential-pair", "write-with-stored_len!=on-disk", "reimport-with-holes"]
    }
}
