//! C09 vecdb: a concurrent reader never sees a length whose elements are not there yet (E6).
use std::sync::atomic::{AtomicBool, AtomicUsize, Ordering};
use std::sync::{Arc, Mutex};

use proptest::prelude::*;
use proptest::strategy::BoxedStrategy;
use serde::{Deserialize, Serialize};
use vecdb::{AnyStoredVec, AnyVec, ReadableVec};

use crate::common::runner::Prop;
use crate::common::{Obs, Tier, frac, kf};
use crate::dispatch_vec;
use crate::sched;
use crate::vecmodel::{Elem, Fmt, MATRIX, Sut, Ty, VecCfg, VecKind, per_page};

#[derive(Clone, Copy, Debug, Serialize, Deserialize)]
pub enum Batch {
    Small(u8),
    /// fill the current page up to its end plus d
    ToBoundary(i8),
    /// one page plus d
    Page(i8),
    Pages2AndHalf,
}

#[derive(Clone, Debug, Serialize, Deserialize)]
pub enum RStep {
    Len,
    One(u16),
    Range(u16, u16),
    Fold(u16, u16),
    TryFold(u16, u16),
    ForEachDyn(u16, u16),
    Cursor(u16, u8),
    Sorted(Vec<u16>),
    Boxed(u16, u16),
    CollectAll,
}

#[derive(Clone, Debug, Serialize, Deserialize)]
pub struct Case {
    pub cfg: VecCfg,
    pub initial: Batch,
    pub batches: Vec<Batch>,
    /// the writer flushes (write + sync of its region) instead of a plain write()
    pub flush: bool,
    /// fill the data file up to ~40 KiB before its end first, so that the writer's growth makes the file grow
    #[serde(default)]
    pub fill_file: bool,
    pub readers: Vec<Vec<RStep>>,
    /// always run somebody else when the writer stops right before publishing the new length
    #[serde(default)]
    pub preempt_before_publish: bool,
    /// readers are held back (for up to 16*n scheduling points) when they stop at the memory-map lock,
    /// i.e. between the snapshot of the region's metadata and the acquisition of the map
    #[serde(default)]
    pub hold_readers_at_mmap: u8,
    /// after every write the writer also creates another region and fills it (no Database::flush in between:
    /// the extent a relocated vector left behind must not be handed out while a reader may still use it)
    #[serde(default)]
    pub alloc_other: bool,
    pub stickiness: u16,
    pub choices: Vec<u16>,
}

fn batch() -> impl Strategy<Value = Batch> {
    prop_oneof![
        5 => (0u8..=60).prop_map(Batch::Small),
        4 => (-2i8..=2).prop_map(Batch::ToBoundary),
        2 => (-1i8..=1).prop_map(Batch::Page),
        1 => Just(Batch::Pages2AndHalf),
    ]
}

fn rstep() -> impl Strategy<Value = RStep> {
    prop_oneof![
        3 => Just(RStep::Len),
        3 => any::<u16>().prop_map(RStep::One),
        4 => (any::<u16>(), any::<u16>()).prop_map(|(a, b)| RStep::Range(a, b)),
        2 => (any::<u16>(), any::<u16>()).prop_map(|(a, b)| RStep::Fold(a, b)),
        1 => (any::<u16>(), any::<u16>()).prop_map(|(a, b)| RStep::TryFold(a, b)),
        1 => (any::<u16>(), any::<u16>()).prop_map(|(a, b)| RStep::ForEachDyn(a, b)),
        2 => (any::<u16>(), 0u8..80).prop_map(|(a, n)| RStep::Cursor(a, n)),
        1 => prop::collection::vec(any::<u16>(), 1..6).prop_map(RStep::Sorted),
        1 => (any::<u16>(), any::<u16>()).prop_map(|(a, b)| RStep::Boxed(a, b)),
        2 => Just(RStep::CollectAll),
    ]
}

const SALT: u64 = 0xC09_0000;

fn val<T: Elem>(i: usize) -> T {
    T::from_seed(SALT + i as u64)
}

fn resolve(b: Batch, len: usize, pp: usize) -> usize {
    match b {
        Batch::Small(k) => k as usize,
        Batch::ToBoundary(d) => ((pp - len % pp) as i64 + d as i64).max(0) as usize,
        Batch::Page(d) => (pp as i64 + d as i64) as usize,
        Batch::Pages2AndHalf => pp * 5 / 2,
    }
}

/// Filler regions (power-of-two reserves) until fewer than 48 KiB separate the allocated area from
/// the end of the data file.
pub fn fill_file(db: &rawdb::Database) -> Result<(), String> {
    fill_file_to(db, 48 * 1024, 32 * 1024)
}

/// `max_gap`: stop when fewer bytes than this are left; `keep`: never fill the last `keep` bytes
pub fn fill_file_to(db: &rawdb::Database, max_gap: usize, keep: usize) -> Result<(), String> {
    for k in 0..60 {
        let gap = db.file_len().saturating_sub(db.layout().len());
        if gap <= max_gap {
            break;
        }
        let mut sz = 4096usize;
        while sz * 2 <= gap - keep {
            sz *= 2;
        }
        let r = db.create_region_if_needed(&format!("filler{k}-{max_gap}")).map_err(|e| format!("filler: {e}"))?;
        r.write(&vec![0xEEu8; sz]).map_err(|e| format!("filler write: {e}"))?;
    }
    Ok(())
}

#[derive(Default)]
struct Shared {
    errors: Mutex<Vec<String>>,
    relocated_in_write: AtomicBool,
    file_grew_in_write: AtomicBool,
    reads: AtomicUsize,
}

/// every element of `got` must be the writer's element at from+k; at least the elements below the
/// length observed before the call must be there
fn check_seq<T: Elem>(sh: &Shared, who: usize, what: &str, from: usize, to: usize, observed: usize, got: &[T]) {
    sh.reads.fetch_add(1, Ordering::Relaxed);
    let must = to.min(observed).saturating_sub(from);
    let may = to.saturating_sub(from);
    if got.len() < must || got.len() > may {
        sh.errors.lock().unwrap().push(format!(
            "reader {who}: {what}({from}, {to}) returned {} elements although it had observed length {observed} (expected between {must} and {may})",
            got.len()
        ));
        return;
    }
    for (k, g) in got.iter().enumerate() {
        let w: T = val(from + k);
        if !g.same(&w) {
            sh.errors.lock().unwrap().push(format!(
                "reader {who}: {what}({from}, {to}) element at index {} is {}, the writer pushed {} there (observed length {observed})",
                from + k,
                g.show(),
                w.show()
            ));
            return;
        }
    }
}

fn reader_prog<T: Elem, R: ReadableVec<usize, T> + vecdb::ReadableCloneableVec<usize, T>>(ro: R, steps: Vec<RStep>, who: usize, sh: Arc<Shared>) {
    let mut observed = 0usize;
    for step in steps {
        sched::pause("reader:between-steps");
        // every step starts by looking at the length, as any caller does
        let l = ro.len();
        if l < observed {
            sh.errors.lock().unwrap().push(format!("reader {who}: observed length went back from {observed} to {l}"));
        }
        observed = observed.max(l);
        let span = observed + 3;
        match step {
            RStep::Len => {}
            RStep::One(i) => {
                // often aim at the indices the writer is appending right now (beyond the observed length):
                // "nothing yet" is fine there, a wrong value is not
                let span = match i % 5 {
                    0 => observed + 70,
                    1 => observed + 2100,
                    _ => span,
                };
                let i = frac(i, span);
                let got = ro.collect_one_at(i);
                sh.reads.fetch_add(1, Ordering::Relaxed);
                match got {
                    Some(g) => {
                        let w: T = val(i);
                        if !g.same(&w) {
                            sh.errors.lock().unwrap().push(format!(
                                "reader {who}: collect_one_at({i}) = {}, the writer pushed {} (observed length {observed})",
                                g.show(),
                                w.show()
                            ));
                        }
                    }
                    None => {
                        if i < observed {
                            sh.errors.lock().unwrap().push(format!("reader {who}: collect_one_at({i}) = None below the observed length {observed}"));
                        }
                    }
                }
            }
            RStep::Range(a, b) => {
                let (f, t) = (frac(a, span), frac(b, span));
                check_seq(&sh, who, "collect_range_at", f, t, observed, &ro.collect_range_at(f, t));
            }
            RStep::Fold(a, b) => {
                let (f, t) = (frac(a, span), frac(b, span));
                let got = ro.fold_range_at(f, t, Vec::new(), |mut acc, v| {
                    acc.push(v);
                    acc
                });
                check_seq(&sh, who, "fold_range_at", f, t, observed, &got);
            }
            RStep::TryFold(a, b) => {
                let (f, t) = (frac(a, span), frac(b, span));
                let got: Result<Vec<T>, ()> = ro.try_fold_range_at(f, t, Vec::new(), |mut acc, v| {
                    acc.push(v);
                    Ok(acc)
                });
                check_seq(&sh, who, "try_fold_range_at", f, t, observed, &got.unwrap());
            }
            RStep::ForEachDyn(a, b) => {
                let (f, t) = (frac(a, span), frac(b, span));
                let mut got = vec![];
                ro.for_each_range_dyn_at(f, t, &mut |v| got.push(v));
                check_seq(&sh, who, "for_each_range_dyn_at", f, t, observed, &got);
            }
            RStep::Cursor(a, n) => {
                let f = frac(a, span);
                let mut c = ro.cursor();
                c.advance(f);
                let start = c.position();
                let mut got = vec![];
                for _ in 0..n {
                    match c.next() {
                        Some(v) => got.push(v),
                        None => break,
                    }
                }
                // the cursor snapshots its own length at creation (>= observed)
                let must_to = (start + n as usize).min(observed);
                check_seq(&sh, who, "cursor.advance+next", start, must_to.max(start + got.len()), observed.min(must_to), &got);
            }
            RStep::Sorted(idxs) => {
                let mut s: Vec<usize> = idxs.iter().map(|&i| frac(i, span)).collect();
                s.sort();
                let got = ro.read_sorted_at(&s);
                sh.reads.fetch_add(1, Ordering::Relaxed);
                let below = s.iter().filter(|&&i| i < observed).count();
                if got.len() < below || got.len() > s.len() {
                    sh.errors.lock().unwrap().push(format!(
                        "reader {who}: read_sorted_at({s:?}) returned {} values, {below} indices lie below the observed length {observed}",
                        got.len()
                    ));
                } else {
                    for (k, g) in got.iter().enumerate() {
                        let w: T = val(s[k]);
                        if !g.same(&w) {
                            sh.errors.lock().unwrap().push(format!(
                                "reader {who}: read_sorted_at({s:?}) value #{k} is {}, the writer pushed {} at index {}",
                                g.show(),
                                w.show(),
                                s[k]
                            ));
                            break;
                        }
                    }
                }
            }
            RStep::Boxed(a, b) => {
                let (f, t) = (frac(a, span), frac(b, span));
                let bx = ro.read_only_boxed_clone();
                check_seq(&sh, who, "boxed.collect_range_dyn", f, t, observed, &bx.collect_range_dyn(f, t));
            }
            RStep::CollectAll => {
                let got = ro.collect();
                check_seq(&sh, who, "collect", 0, got.len().max(observed), observed, &got);
            }
        }
    }
}

fn run_generic<V: VecKind + Send + 'static>(case: &Case, obs: &mut Obs) -> Result<(), String>
where
    V::T: Elem,
    V::ReadOnly: Send + vecdb::ReadableCloneableVec<usize, V::T>,
{
    let cfg = case.cfg;
    let pp = per_page(cfg.ty);
    let mut sut = Sut::<V>::new(cfg)?;
    let tag = format!("[{:?}/{}]", cfg.fmt, V::T::NAME);
    // initial contents, written before the threads start
    let n0 = resolve(case.initial, 0, pp);
    {
        let v = sut.vm();
        for i in 0..n0 {
            v.push(val::<V::T>(i));
        }
        v.write().map_err(|e| format!("{tag} initial write: {e}"))?;
    }
    if case.fill_file {
        fill_file(&sut.db)?;
    }
    let mut total = n0;
    let mut plan: Vec<(usize, usize)> = vec![];
    for b in &case.batches {
        let mut n = resolve(*b, total, pp);
        // KF-C09-1 (known finding): a compressed write() that starts inside a partially filled last
        // page and fills or overflows it re-encodes that page in place before updating the index.
        // Excluded by construction: such a batch is shortened to stay inside the page (counted).
        if cfg.fmt.is_compressed() && total % pp != 0 && total % pp + n >= pp && kf::active("KF-C09-1") {
            n = pp - total % pp - 1;
            obs.exclude("KF-C09-1");
        }
        plan.push((total, n));
        total += n;
    }
    let sh = Arc::new(Shared::default());
    let mut progs: Vec<sched::Prog> = vec![];
    let ros: Vec<V::ReadOnly> = case.readers.iter().map(|_| sut.v().read_only_clone()).collect();
    let region = sut.v().region().clone();
    let names = sched::lock_names(&sut.db, &[("vec".to_string(), region.clone())]);
    // the writer owns the vector for the duration of the run
    let vec_slot: Arc<Mutex<Option<V>>> = Arc::new(Mutex::new(sut.vec.take()));
    {
        let (sh, slot, flush, db, alloc_other) = (sh.clone(), vec_slot.clone(), case.flush, sut.db.clone(), case.alloc_other);
        progs.push(Box::new(move || {
            let mut v = slot.lock().unwrap().take().expect("vector");
            for (j, (base, n)) in plan.into_iter().enumerate() {
                sched::pause("writer:between-batches");
                for i in base..base + n {
                    v.push(val::<V::T>(i));
                }
                let (s0, f0) = (v.region().meta().start(), db.file_len());
                let r = if flush { v.flush() } else { v.write().map(|_| ()) };
                if let Err(e) = r {
                    sh.errors.lock().unwrap().push(format!("writer: write() failed: {e}"));
                }
                if v.region().meta().start() != s0 {
                    sh.relocated_in_write.store(true, Ordering::Relaxed);
                }
                if db.file_len() != f0 {
                    sh.file_grew_in_write.store(true, Ordering::Relaxed);
                }
                if alloc_other {
                    match db.create_region_if_needed(&format!("other{j}")) {
                        Ok(r) => {
                            if let Err(e) = r.write(&vec![0xEEu8; 9000 + 4096 * j]) {
                                sh.errors.lock().unwrap().push(format!("writer: filling another region failed: {e}"));
                            }
                        }
                        Err(e) => sh.errors.lock().unwrap().push(format!("writer: creating another region failed: {e}")),
                    }
                }
            }
            *slot.lock().unwrap() = Some(v);
        }));
    }
    for (k, (ro, steps)) in ros.into_iter().zip(case.readers.iter().cloned()).enumerate() {
        let sh = sh.clone();
        progs.push(Box::new(move || reader_prog::<V::T, V::ReadOnly>(ro, steps, k + 1, sh)));
    }
    let preempt = if case.preempt_before_publish {
        vec!["raw-write:before-publish-len", "compressed-write:before-publish-len", "compressed-write-fast:before-publish-len"]
    } else {
        vec![]
    };
    let hold = (case.hold_readers_at_mmap > 0).then(|| sched::Holdback { progs: !1u32, class: "mmap", points: case.hold_readers_at_mmap as usize * 16 });
    if hold.is_some() {
        obs.label("readers-held-back-at-the-memory-map-lock");
    }
    if case.alloc_other {
        obs.label("writer-allocates-another-region-after-each-write");
    }
    let out = sched::run_full(progs, &case.choices, case.stickiness, names, preempt, hold);
    sut.vec = vec_slot.lock().unwrap().take();
    if let Some(m) = &out.inconclusive {
        return Err(format!("INCONCLUSIVE: {m}"));
    }
    obs.count("scheduling_points", out.points as u64);
    obs.count("context_switches", out.switches as u64);
    obs.count("reads_checked", sh.reads.load(Ordering::Relaxed) as u64);
    for y in &out.preempted_at {
        match *y {
            "raw-write:before-publish-len" => obs.label("reader-ran:raw:data-written,len-not-published"),
            "compressed-write:before-publish-len" => obs.label("reader-ran:compressed:pages-updated,len-not-published"),
            "compressed-write-fast:before-publish-len" => obs.label("reader-ran:compressed-fast-append:len-not-published"),
            "raw-write:after-publish-len" | "compressed-write:after-publish-len" | "compressed-write-fast:after-publish-len" => {
                obs.label("reader-ran:len-published,write-not-returned")
            }
            _ => {}
        }
        if y.ends_with("before-publish-len") {
            obs.set_nontrivial();
        }
    }
    if out.contended > 0 {
        obs.label("lock-request-had-to-wait");
    }
    if sh.relocated_in_write.load(Ordering::Relaxed) {
        obs.label("writer:region-relocated-during-run");
    }
    if sh.file_grew_in_write.load(Ordering::Relaxed) {
        obs.label("writer:file-grew-during-run");
    }
    if let Some(d) = &out.deadlock {
        return Err(format!("{tag} DEADLOCK: {d}"));
    }
    if let Some((p, m)) = out.panics.first() {
        return Err(format!("{tag} PANIC in program {p}: {m}"));
    }
    let errs = sh.errors.lock().unwrap();
    if let Some(e) = errs.first() {
        return Err(format!("{tag} {e}"));
    }
    drop(errs);
    // quiescent end state: everything the writer pushed is there
    let got = sut.v().collect();
    if got.len() != total {
        return Err(format!("{tag} after the run the vector has {} elements, the writer pushed {total}", got.len()));
    }
    for (i, g) in got.iter().enumerate() {
        if !g.same(&val::<V::T>(i)) {
            return Err(format!("{tag} after the run element {i} is {}, the writer pushed {}", g.show(), val::<V::T>(i).show()));
        }
    }
    Ok(())
}

pub struct P;

impl Prop for P {
    type Case = Case;
    const ID: &'static str = "C09";
    const ENGINE: &'static str = "E6-sched";

    fn cases(tier: Tier) -> u32 {
        tier.pick(20000, 300000)
    }

    fn strategy(tier: Tier) -> BoxedStrategy<Case> {
        let pairs: Vec<(Fmt, Ty)> = MATRIX
            .iter()
            .copied()
            .filter(|&(f, t)| !matches!(f, Fmt::EagerBytes | Fmt::EagerPco) && !matches!(t, Ty::U16 | Ty::A3))
            .collect();
        let nb = tier.pick(4usize, 8);
        (
            0..pairs.len(),
            batch(),
            prop::collection::vec(batch(), 1..=nb),
            prop::bool::weighted(0.25),
            prop::bool::weighted(0.4),
            prop::collection::vec(prop::collection::vec(rstep(), 1..=6), 1..=2),
            prop::bool::weighted(0.5),
            (prop_oneof![3 => Just(0u8), 1 => Just(2u8), 1 => Just(6u8), 1 => Just(20u8)], prop::bool::weighted(0.3)),
            prop_oneof![Just(0u16), Just(30000u16), Just(52000u16), Just(62000u16)],
            prop::collection::vec(any::<u16>(), 0..300),
        )
            .prop_map(move |(ci, initial, batches, flush, fill_file, readers, preempt_before_publish, (hold_readers_at_mmap, alloc_other), stickiness, choices)| Case {
                cfg: VecCfg { fmt: pairs[ci].0, ty: pairs[ci].1, retention: 0 },
                initial,
                batches,
                flush,
                fill_file,
                readers,
                preempt_before_publish,
                hold_readers_at_mmap,
                alloc_other,
                stickiness,
                choices,
            })
            .boxed()
    }

    fn run(case: &Case, obs: &mut Obs) -> Result<(), String> {
        let cfg = case.cfg;
        dispatch_vec!(cfg, run_generic, (case, obs))
    }

    fn rule() -> String {
        "one writer program (append batches sized {small, to the page boundary +-2, one page +-1, 2.5 pages}, write() or flush() after each, in 3 of 10 cases followed by the creation and filling of another region; raw and compressed formats of the matrix; 4 KiB regions so that relocation and file growth fall inside the run) and 1-2 reader programs over read-only clones created before the run (steps: len, collect_one_at, collect_range_at, fold/try_fold/for_each_dyn, cursor advance+next, read_sorted_at, boxed clone, collect) executed by the deterministic scheduler: every tapped lock request and every yield point (incl. the ones before/after the stored-length publication inside write()) is a scheduling point and the next program is taken from a generated choice vector (uniform, or sticky with weight 30000/52000/62000 of 65536). Oracle: every value returned for index i equals the value the writer pushed at i; every sequence returned covers at least the indices below the length the reader had observed before the call; observed lengths never decrease; no panic; no model deadlock; final contents complete. Non-trivial: a reader ran while the writer was parked between its data/page-index write and the publication of the new length.".into()
    }

    fn mandatory_labels() -> &'static [&'static str] {
        &[
            "reader-ran:raw:data-written,len-not-published",
            "reader-ran:compressed:pages-updated,len-not-published",
            "reader-ran:compressed-fast-append:len-not-published",
            "reader-ran:len-published,write-not-returned",
            "writer:region-relocated-during-run",
            "writer:file-grew-during-run",
            "lock-request-had-to-wait",
        ]
    }

    fn assumptions() -> Vec<String> {
        vec![
            "interleavings are explored at lock-request / yield-point granularity under sequential consistency; weak-memory reorderings of the shared-length Release/Acquire pair are out of reach".into(),
            "read-write locks are modelled as writer-preferring FIFO locks, as the property states".into(),
        ]
    }

    fn max_shrink_iters(tier: Tier) -> u32 {
        tier.pick(800, 2500)
    }
}
