//! C02 rawdb: extents never overlap; free space fully accounted and reused.
use proptest::prelude::*;
use proptest::strategy::BoxedStrategy;

use crate::common::runner::Prop;
use crate::common::{Obs, Tier};
use crate::rawmodel::{Checks, History, Op, RawSut, check_extents, history_strategy, op_strategy};

pub struct P;

impl Prop for P {
    type Case = History;
    const ID: &'static str = "C02";
    const ENGINE: &'static str = "E1-rawmodel";

    fn cases(tier: Tier) -> u32 {
        tier.pick(24000, 120000)
    }

    fn strategy(tier: Tier) -> BoxedStrategy<History> {
        // C01's histories, enriched with removals and flushes so that holes exist
        let n = tier.pick(40usize, 150);
        let extra = prop_oneof![
            3 => any::<u16>().prop_map(|r| Op::Remove { r }),
            3 => Just(Op::Flush),
            1 => Just(Op::Reopen),
            6 => op_strategy(false),
        ];
        let a = history_strategy(n, false);
        let b = (
            prop_oneof![Just(0u32), Just(4096u32), Just(1u32 << 20), Just(3 * (1u32 << 20) + 1)],
            prop::collection::vec(extra, 0..=n),
        )
            .prop_map(|(min_len, ops)| History { min_len, ops });
        prop_oneof![1 => a, 2 => b].boxed()
    }

    fn run(case: &History, obs: &mut Obs) -> Result<(), String> {
        let mut sut = RawSut::open(
            case.min_len as usize,
            Checks { contents: false, extents: true, placement_rule: true },
        )?;
        check_extents(sut.db()).map_err(|e| format!("after open: {e}"))?;
        for (i, op) in case.ops.iter().enumerate() {
            sut.step(op, obs).map_err(|e| format!("op #{i} {op:?}: {e}"))?;
        }
        if sut.coalesce_promotions >= 1 && sut.placements_with_hole >= 1 {
            obs.set_nontrivial();
        }
        Ok(())
    }

    fn rule() -> String {
        "C01-style histories enriched with removals/flushes/reopens and initial sizes open_with_min_len in {0,4096,1MiB,3MiB+1}; after EVERY op: page alignment, len<=reserved, extent inside file, exact partition of [0,Layout::len()) into live extents + holes + pending holes (no byte lost or double-booked), no reservations left, hole size index consistent, adjacent holes merged, layout/regions-table agreement; placement rule: a created/relocated region must lie inside a pre-existing adequate hole when one existed. Non-trivial: history with >=1 promotion of a pending hole adjacent to another free extent AND >=1 placement decided while >=1 hole existed.".into()
    }

    fn mandatory_labels() -> &'static [&'static str] {
        &["promotion-coalesces", "placement-with-holes-present", "create-in-hole", "place:relocate-to-hole", "reopen"]
    }
}
