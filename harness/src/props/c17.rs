//! C17: on-disk codecs round-trip every valid value and reject garbage without panicking.
//!
//! Every decoder is compared with an independent reference decoder written here from the
//! on-disk format (differential oracle), on valid encodings at and around the limits, on
//! truncations / byte flips / boundary values in the length fields of valid encodings, and
//! on arbitrary bytes. A counting global allocator bounds what a decoder may allocate.
use std::alloc::{GlobalAlloc, Layout, System};
use std::sync::atomic::{AtomicBool, AtomicUsize, Ordering};

use proptest::prelude::*;
use proptest::strategy::BoxedStrategy;
use rawdb::{Database, RegionMetadata};
use serde::{Deserialize, Serialize};
use vecdb::{Bytes, BytesStrategy, Format, PcodecStrategy, Stamp, Version};

use crate::common::runner::{Prop, catch_panic};
use crate::common::tmp::Scratch;
use crate::common::{Obs, Tier, frac, pat_bytes, splitmix64};
use crate::vecmodel::elem::WrapU32B;

// ------------------------------------------------------------------ allocation monitor

pub struct CountingAlloc;
static ARMED: AtomicBool = AtomicBool::new(false);
static MAX_REQ: AtomicUsize = AtomicUsize::new(0);

unsafe impl GlobalAlloc for CountingAlloc {
    unsafe fn alloc(&self, l: Layout) -> *mut u8 {
        if ARMED.load(Ordering::Relaxed) {
            MAX_REQ.fetch_max(l.size(), Ordering::Relaxed);
        }
        unsafe { System.alloc(l) }
    }
    unsafe fn dealloc(&self, p: *mut u8, l: Layout) {
        unsafe { System.dealloc(p, l) }
    }
    unsafe fn realloc(&self, p: *mut u8, l: Layout, n: usize) -> *mut u8 {
        if ARMED.load(Ordering::Relaxed) {
            MAX_REQ.fetch_max(n, Ordering::Relaxed);
        }
        unsafe { System.realloc(p, l, n) }
    }
}

/// Runs a decoder: panics are caught, the largest single allocation request is returned.
fn decode<T>(f: impl FnOnce() -> T) -> Result<(T, usize), String> {
    MAX_REQ.store(0, Ordering::SeqCst);
    ARMED.store(true, Ordering::SeqCst);
    let r = catch_panic(f);
    ARMED.store(false, Ordering::SeqCst);
    let m = MAX_REQ.load(Ordering::SeqCst);
    r.map(|v| (v, m)).map_err(|p| format!("decoder panicked: {p}"))
}

/// "never allocates beyond the input size": a decoded value holds at most the bytes it was
/// decoded from (element vectors may round their capacity up, error values carry a message).
fn alloc_ok(what: &str, input: usize, max_req: usize) -> Result<(), String> {
    let bound = 2 * input + 512;
    if max_req > bound {
        return Err(format!("{what}: decoding {input} input bytes requested a single allocation of {max_req} bytes (bound {bound})"));
    }
    Ok(())
}

// ------------------------------------------------------------------ generated values

#[derive(Clone, Copy, Debug, Serialize, Deserialize, PartialEq, Eq)]
pub enum Num {
    Small(u16),
    /// 4096 * k + d
    Page(u16, i8),
    /// 2^32 + d
    P32(i8),
    /// 2^63 + d
    P63(i8),
    /// u64::MAX - d
    Max(u8),
    Any(u64),
}

impl Num {
    pub fn get(self) -> u64 {
        match self {
            Num::Small(v) => v as u64,
            Num::Page(k, d) => (4096u64 * k as u64).wrapping_add(d as i64 as u64),
            Num::P32(d) => (1u64 << 32).wrapping_add(d as i64 as u64),
            Num::P63(d) => (1u64 << 63).wrapping_add(d as i64 as u64),
            Num::Max(d) => u64::MAX - d as u64,
            Num::Any(v) => v,
        }
    }
}

fn num() -> impl Strategy<Value = Num> {
    prop_oneof![
        3 => (0u16..40).prop_map(Num::Small),
        5 => (0u16..600, -1i8..=1).prop_map(|(k, d)| Num::Page(k, d)),
        1 => (-1i8..=1).prop_map(Num::P32),
        1 => (-1i8..=1).prop_map(Num::P63),
        1 => (0u8..3).prop_map(Num::Max),
        1 => any::<u64>().prop_map(Num::Any),
    ]
}

#[derive(Clone, Debug, Serialize, Deserialize)]
pub enum Mutation {
    None,
    /// keep only the first frac(len) bytes
    Truncate(u16),
    /// xor bytes at fractional positions
    Flip(Vec<(u16, u8)>),
    /// overwrite the k-th 8-byte little-endian word (k counted over the fixed fields; ignored when out of range)
    SetWord(u8, Num),
    /// replace everything by arbitrary bytes
    Garbage(Vec<u8>),
    /// append bytes
    Extend(Vec<u8>),
}

fn mutation() -> impl Strategy<Value = Mutation> {
    prop_oneof![
        3 => Just(Mutation::None),
        3 => any::<u16>().prop_map(Mutation::Truncate),
        3 => prop::collection::vec((any::<u16>(), 1u8..=255), 1..4).prop_map(Mutation::Flip),
        4 => (0u8..8, num()).prop_map(|(k, n)| Mutation::SetWord(k, n)),
        1 => prop::collection::vec(any::<u8>(), 0..80).prop_map(Mutation::Garbage),
        1 => prop::collection::vec(any::<u8>(), 1..24).prop_map(Mutation::Extend),
    ]
}

impl Mutation {
    /// `words`: byte offsets of the 8-byte length/count fields of this encoding
    fn apply(&self, mut b: Vec<u8>, words: &[usize]) -> Vec<u8> {
        match self {
            Mutation::None => b,
            Mutation::Truncate(f) => {
                let n = frac(*f, b.len());
                b.truncate(n);
                b
            }
            Mutation::Flip(v) => {
                if !b.is_empty() {
                    // positions are biased toward the fixed fields at the front
                    for (p, x) in v {
                        let span = if p & 1 == 0 { b.len().min(64) } else { b.len() };
                        let i = frac(*p, span - 1);
                        b[i] ^= x;
                    }
                }
                b
            }
            Mutation::SetWord(k, n) => {
                if !words.is_empty() {
                    let off = words[*k as usize % words.len()];
                    if off + 8 <= b.len() {
                        b[off..off + 8].copy_from_slice(&n.get().to_le_bytes());
                    }
                }
                b
            }
            Mutation::Garbage(g) => g.clone(),
            Mutation::Extend(e) => {
                b.extend_from_slice(e);
                b
            }
        }
    }
    fn is_some(&self) -> bool {
        !matches!(self, Mutation::None)
    }
}

#[derive(Clone, Copy, Debug, Serialize, Deserialize, PartialEq, Eq)]
pub enum IdKind {
    Ascii,
    MultiByte,
    NonUtf8,
    Control,
}

#[derive(Clone, Debug, Serialize, Deserialize)]
pub struct MetaSpec {
    pub start: Num,
    pub len: Num,
    pub reserved: Num,
    /// number of id bytes written
    pub id_bytes: u16,
    pub id_kind: IdKind,
    /// declared id length when it differs from the bytes written
    pub declared: Option<Num>,
}

fn id_len() -> impl Strategy<Value = u16> {
    prop_oneof![
        1 => Just(0u16),
        2 => Just(1u16),
        4 => 2u16..64,
        2 => Just(1023u16),
        3 => Just(1024u16),
        3 => Just(1025u16),
        1 => 1026u16..4064,
        1 => Just(4064u16),
    ]
}

fn meta_spec() -> impl Strategy<Value = MetaSpec> {
    let valid = (0u16..600, 1u16..600, any::<u16>()).prop_map(|(s, r, l)| {
        let reserved = 4096u64 * r as u64;
        (Num::Page(s, 0), Num::Any(frac(l, reserved as usize) as u64), Num::Page(r, 0))
    });
    let fields = prop_oneof![3 => valid, 2 => (num(), num(), num())];
    (
        fields,
        id_len(),
        prop_oneof![5 => Just(IdKind::Ascii), 2 => Just(IdKind::MultiByte), 2 => Just(IdKind::NonUtf8), 1 => Just(IdKind::Control)],
        prop_oneof![6 => Just(None), 1 => num().prop_map(Some)],
    )
        .prop_map(|((start, len, reserved), id_bytes, id_kind, declared)| MetaSpec { start, len, reserved, id_bytes, id_kind, declared })
}

const META_SIZE: usize = 4096;

fn id_bytes(kind: IdKind, n: usize, salt: u64) -> Vec<u8> {
    let mut v: Vec<u8> = (0..n).map(|i| b'a' + ((splitmix64(salt ^ i as u64) % 26) as u8)).collect();
    match kind {
        IdKind::Ascii => {}
        IdKind::MultiByte => {
            // 2-byte code points (U+00E9) wherever a pair fits
            let mut i = 0;
            while i + 1 < n {
                v[i] = 0xC3;
                v[i + 1] = 0xA9;
                i += 2;
            }
        }
        IdKind::NonUtf8 => {
            if n > 0 {
                v[n / 2] = 0xFF;
            }
        }
        IdKind::Control => {
            if n > 0 {
                v[n / 2] = 0x07;
            }
        }
    }
    v
}

fn encode_meta(m: &MetaSpec) -> Vec<u8> {
    let mut b = vec![0u8; META_SIZE];
    let n = (m.id_bytes as usize).min(META_SIZE - 32);
    let id = id_bytes(m.id_kind, n, m.start.get() ^ m.reserved.get());
    b[0..8].copy_from_slice(&m.start.get().to_le_bytes());
    b[8..16].copy_from_slice(&m.len.get().to_le_bytes());
    b[16..24].copy_from_slice(&m.reserved.get().to_le_bytes());
    b[24..32].copy_from_slice(&m.declared.map(|d| d.get()).unwrap_or(n as u64).to_le_bytes());
    b[32..32 + n].copy_from_slice(&id);
    b
}

#[derive(Debug, PartialEq, Eq, Clone)]
struct RefMeta {
    start: u64,
    len: u64,
    reserved: u64,
    id: Vec<u8>,
}

/// Reference decoder of one metadata slot: the validity rules the property names.
fn ref_meta(b: &[u8]) -> Option<RefMeta> {
    if b.len() != META_SIZE {
        return None;
    }
    let w = |i: usize| u64::from_le_bytes(b[i * 8..i * 8 + 8].try_into().unwrap());
    let (start, len, reserved, id_len) = (w(0), w(1), w(2), w(3));
    if start == 0 && len == 0 && reserved == 0 && id_len == 0 {
        return None; // free slot
    }
    if id_len > 1024 {
        return None;
    }
    let id = &b[32..32 + id_len as usize];
    if std::str::from_utf8(id).is_err() {
        return None;
    }
    if start % 4096 != 0 || reserved < 4096 || reserved % 4096 != 0 || len > reserved {
        return None;
    }
    Some(RefMeta { start, len, reserved, id: id.to_vec() })
}

fn check_meta(bytes: &[u8], what: &str) -> Result<bool, String> {
    let want = ref_meta(bytes);
    let (got, req) = decode(|| RegionMetadata::from_bytes(bytes)).map_err(|e| format!("{what}: {e}"))?;
    alloc_ok(what, bytes.len(), req)?;
    match (&want, &got) {
        (None, Err(_)) => Ok(false),
        (None, Ok(m)) => Err(format!(
            "{what}: RegionMetadata::from_bytes accepted an invalid slot: start={} len={} reserved={} id of {} bytes",
            m.start(),
            m.len(),
            m.reserved(),
            m.id().len()
        )),
        (Some(w), Err(e)) => Err(format!("{what}: RegionMetadata::from_bytes rejected a valid slot ({w:?}): {e}")),
        (Some(w), Ok(m)) => {
            let g = RefMeta { start: m.start() as u64, len: m.len() as u64, reserved: m.reserved() as u64, id: m.id().as_bytes().to_vec() };
            if &g != w {
                return Err(format!("{what}: decoded {g:?}, encoded {w:?}"));
            }
            Ok(true)
        }
    }
}

/// Entry point of the libFuzzer target (fuzz/fuzz_targets/codec.rs): byte 0 selects the decoder, the
/// rest is its input. Same oracle as the proptest cases: the library must accept / refuse exactly as
/// the reference decoder does, decode the same fields, not panic, not over-allocate.
pub fn fuzz_one(data: &[u8]) -> Result<(), String> {
    let Some((&sel, rest)) = data.split_first() else { return Ok(()) };
    let r = catch_panic(|| match sel % 9 {
        0 => {
            // a metadata slot is exactly 4096 bytes: pad / cut so that the field logic is reached
            let mut slot = rest.to_vec();
            slot.resize(4096, 0);
            check_meta(&slot, "fuzz: metadata slot").map(|_| ())
        }
        1 => check_meta(rest, "fuzz: metadata bytes").map(|_| ()),
        2 => check_header(rest).map(|_| ()),
        3 => check_page(rest).map(|_| ()),
        4 => check_change(ChangeTy::RawU16, rest).map(|_| ()),
        5 => check_change(ChangeTy::RawU64, rest).map(|_| ()),
        6 => check_change(ChangeTy::RawA16, rest).map(|_| ()),
        7 => check_change(ChangeTy::BaseU32, rest).map(|_| ()),
        _ => check_change(ChangeTy::BasePcoU64, rest).map(|_| ()),
    });
    match r {
        Ok(r) => r,
        Err(p) => Err(format!("decoder {} panicked: {p}", sel % 9)),
    }
}

/// Golden (valid) encodings for the fuzz corpus, one file per input, selector byte first.
pub fn dump_seeds(dir: &std::path::Path) -> std::io::Result<usize> {
    std::fs::create_dir_all(dir)?;
    let mut n = 0;
    let mut put = |sel: u8, body: &[u8]| -> std::io::Result<()> {
        let mut v = vec![sel];
        v.extend_from_slice(body);
        n += 1;
        std::fs::write(dir.join(format!("seed-{n:03}")), v)
    };
    for (k, (s, r, l, idn)) in [(0u16, 1u16, 0u64, 1u16), (3, 2, 5000, 12), (7, 64, 4096 * 64, 1024), (1, 1, 4096, 40)].into_iter().enumerate() {
        let m = MetaSpec { start: Num::Page(s, 0), len: Num::Any(l), reserved: Num::Page(r, 0), id_bytes: idn, id_kind: if k % 2 == 0 { IdKind::Ascii } else { IdKind::MultiByte }, declared: None };
        put(0, &encode_meta(&m))?;
        put(1, &encode_meta(&m))?;
    }
    // header: header_version, vec_version, computed_version (u32 each), stamp (u64), format byte, padding
    for f in [0u8, 1, 64, 65, 66] {
        let mut h = vec![0u8; vecdb::verif::HEADER_LEN];
        h[0..4].copy_from_slice(&1u32.to_le_bytes());
        h[4..8].copy_from_slice(&7u32.to_le_bytes());
        h[8..12].copy_from_slice(&9u32.to_le_bytes());
        h[12..20].copy_from_slice(&42u64.to_le_bytes());
        h[20] = f;
        put(2, &h)?;
    }
    for (start, bytes, vals) in [(24u64, 100u32, 25u32), (4096, 16384, 2048 | 0x8000_0000), (0, 0, 0)] {
        let mut p = vec![];
        p.extend(start.to_le_bytes());
        p.extend(bytes.to_le_bytes());
        p.extend(vals.to_le_bytes());
        put(3, &p)?;
    }
    for (sel, ty) in [(4u8, ChangeTy::RawU16), (5, ChangeTy::RawU64), (6, ChangeTy::RawA16), (7, ChangeTy::BaseU32), (8, ChangeTy::BasePcoU64)] {
        for (t, pp, pu, mo, ho) in [(0u8, 0u8, 0u8, 0u8, 0u8), (3, 2, 4, 2, 1), (0, 5, 0, 3, 3)] {
            let c = ChangeSpec { ty, stamp: Num::Any(5), keep: Num::Any(10), stored_len: Num::Any(20), truncated: t, prev_pushed: pp, pushed: pu, mods: mo, holes: ho };
            put(sel, &encode_change(&c).0)?;
        }
    }
    Ok(n)
}

// ------------------------------------------------------------------ header / page

fn ref_format(b: u8) -> Option<Format> {
    Some(match b {
        0 => Format::Bytes,
        1 => Format::ZeroCopy,
        64 => Format::Pco,
        65 => Format::LZ4,
        66 => Format::Zstd,
        _ => return None,
    })
}

fn check_header(bytes: &[u8]) -> Result<bool, String> {
    let want = if bytes.len() < vecdb::verif::HEADER_LEN {
        None
    } else {
        ref_format(bytes[20]).map(|f| {
            let u = |i: usize| u32::from_le_bytes(bytes[i..i + 4].try_into().unwrap());
            (u(0), u(4), u(8), u64::from_le_bytes(bytes[12..20].try_into().unwrap()), f)
        })
    };
    let (got, req) = decode(|| vecdb::verif::header_from_bytes(bytes)).map_err(|e| format!("header: {e}"))?;
    alloc_ok("header", bytes.len(), req)?;
    match (want, got) {
        (None, Err(_)) => Ok(false),
        (None, Ok(h)) => Err(format!("header decoder accepted {} bytes with format byte {:?}: {h:?}", bytes.len(), bytes.get(20))),
        (Some(w), Err(e)) => Err(format!("header decoder rejected a valid header {w:?}: {e}")),
        (Some(w), Ok(h)) => {
            let g = (u32::from(h.0), u32::from(h.1), u32::from(h.2), u64::from(h.3), h.4);
            if g != w {
                return Err(format!("header decoded as {g:?}, bytes hold {w:?}"));
            }
            Ok(true)
        }
    }
}

fn check_page(bytes: &[u8]) -> Result<bool, String> {
    let want = if bytes.len() < 16 {
        None
    } else {
        let v = u32::from_le_bytes(bytes[12..16].try_into().unwrap());
        Some((u64::from_le_bytes(bytes[0..8].try_into().unwrap()), u32::from_le_bytes(bytes[8..12].try_into().unwrap()), v & 0x7FFF_FFFF, v >> 31 == 1))
    };
    let (got, req) = decode(|| vecdb::verif::page_from_bytes(bytes)).map_err(|e| format!("page entry: {e}"))?;
    alloc_ok("page entry", bytes.len(), req)?;
    match (want, got) {
        (None, Err(_)) => Ok(false),
        (None, Ok(p)) => Err(format!("page decoder accepted {} bytes: {p:?}", bytes.len())),
        (Some(w), Err(e)) => Err(format!("page decoder rejected 16+ bytes {w:?}: {e}")),
        (Some(w), Ok(g)) => {
            if g != w {
                return Err(format!("page entry decoded as {g:?}, bytes hold {w:?} (start, bytes, values, raw)"));
            }
            Ok(true)
        }
    }
}

// ------------------------------------------------------------------ values

fn check_value<T: Bytes>(name: &str, seed: u64, delta: i8) -> Result<(), String> {
    let size = std::mem::size_of::<T::Array>();
    let mut raw = Vec::with_capacity(size + 8);
    let mut s = seed;
    while raw.len() < size + 8 {
        s = splitmix64(s);
        // boundary patterns as well as random bits
        let w = match seed % 5 {
            0 => 0u64,
            1 => u64::MAX,
            2 => 1u64 << 63,
            _ => s,
        };
        raw.extend_from_slice(&w.to_le_bytes());
    }
    let exact = &raw[..size];
    let (v, req) = decode(|| T::from_bytes(exact)).map_err(|e| format!("{name}: {e}"))?;
    alloc_ok(name, size, req)?;
    let v = v.map_err(|e| format!("{name}::from_bytes rejected {size} bytes: {e}"))?;
    let back = v.to_bytes();
    if back.as_ref() != exact {
        return Err(format!("{name}: {:02x?} decoded and re-encoded gives {:02x?}", exact, back.as_ref()));
    }
    let (v2, _) = decode(|| T::from_bytes(back.as_ref())).map_err(|e| format!("{name}: {e}"))?;
    if v2.map(|x| x.to_bytes().as_ref().to_vec()).ok().as_deref() != Some(exact) {
        return Err(format!("{name}: second round trip of {:02x?} differs", exact));
    }
    if delta != 0 {
        let n = (size as i64 + delta as i64).clamp(0, size as i64 + 8) as usize;
        if n != size {
            let (r, _) = decode(|| T::from_bytes(&raw[..n])).map_err(|e| format!("{name} on {n} bytes: {e}"))?;
            if r.is_ok() {
                return Err(format!("{name}::from_bytes accepted {n} bytes (the encoding has {size})"));
            }
        }
    }
    Ok(())
}

const VALUE_TYPES: usize = 30;

fn check_value_ty(ty: u8, seed: u64, delta: i8) -> Result<&'static str, String> {
    macro_rules! t {
        ($($i:expr => $t:ty),* $(,)?) => {
            match ty as usize % VALUE_TYPES {
                $($i => { check_value::<$t>(stringify!($t), seed, delta)?; stringify!($t) })*
                _ => unreachable!(),
            }
        };
    }
    Ok(t!(
        0 => u8, 1 => u16, 2 => u32, 3 => u64, 4 => u128, 5 => usize, 6 => i8, 7 => i16, 8 => i32, 9 => i64,
        10 => i128, 11 => isize, 12 => f32, 13 => f64, 14 => [u8; 1], 15 => [u8; 2], 16 => [u8; 3], 17 => [u8; 7],
        18 => [u8; 8], 19 => [u8; 16], 20 => [u8; 20], 21 => [u8; 31], 22 => [u8; 32], 23 => [u8; 33], 24 => [u8; 64],
        25 => [u8; 65], 26 => WrapU32B, 27 => Stamp, 28 => Version, 29 => [u8; 12],
    ))
}

// ------------------------------------------------------------------ change records

#[derive(Clone, Copy, Debug, Serialize, Deserialize, PartialEq, Eq)]
pub enum ChangeTy {
    RawU16,
    RawU32,
    RawU64,
    RawA16,
    BaseU32,
    BasePcoU64,
}

impl ChangeTy {
    fn size(self) -> usize {
        match self {
            ChangeTy::RawU16 => 2,
            ChangeTy::RawU32 | ChangeTy::BaseU32 => 4,
            ChangeTy::RawU64 | ChangeTy::BasePcoU64 => 8,
            ChangeTy::RawA16 => 16,
        }
    }
    fn raw(self) -> bool {
        matches!(self, ChangeTy::RawU16 | ChangeTy::RawU32 | ChangeTy::RawU64 | ChangeTy::RawA16)
    }
}

#[derive(Clone, Debug, Serialize, Deserialize)]
pub struct ChangeSpec {
    pub ty: ChangeTy,
    pub stamp: Num,
    /// untouched prefix (prev_stored_len = keep + truncated)
    pub keep: Num,
    pub stored_len: Num,
    pub truncated: u8,
    pub prev_pushed: u8,
    pub pushed: u8,
    pub mods: u8,
    pub holes: u8,
}

type Summary = (u64, usize, usize, usize, usize, usize, usize);

/// Returns (bytes, offsets of the count fields).
fn encode_change(c: &ChangeSpec) -> (Vec<u8>, Vec<usize>) {
    let sz = c.ty.size();
    let mut b = vec![];
    let mut words = vec![];
    let vals = |b: &mut Vec<u8>, n: usize, salt: u8| b.extend(pat_bytes(salt, b.len(), n * sz));
    b.extend(c.stamp.get().to_le_bytes());
    words.push(b.len());
    b.extend(c.keep.get().wrapping_add(c.truncated as u64).to_le_bytes());
    words.push(b.len());
    b.extend(c.stored_len.get().to_le_bytes());
    words.push(b.len());
    b.extend((c.truncated as u64).to_le_bytes());
    vals(&mut b, c.truncated as usize, 1);
    words.push(b.len());
    b.extend((c.prev_pushed as u64).to_le_bytes());
    vals(&mut b, c.prev_pushed as usize, 2);
    words.push(b.len());
    b.extend((c.pushed as u64).to_le_bytes());
    vals(&mut b, c.pushed as usize, 3);
    if c.ty.raw() {
        words.push(b.len());
        b.extend((c.mods as u64).to_le_bytes());
        for i in 0..c.mods as u64 {
            b.extend((i * 3).to_le_bytes());
        }
        vals(&mut b, c.mods as usize, 4);
        words.push(b.len());
        b.extend((c.holes as u64).to_le_bytes());
        for i in 0..c.holes as u64 {
            b.extend((i * 5 + 1).to_le_bytes());
        }
    }
    (b, words)
}

/// Reference parser of a change record (checked arithmetic throughout). None = must be refused.
fn ref_change(b: &[u8], sz: usize, raw: bool) -> Option<Summary> {
    struct C<'a>(&'a [u8], usize);
    impl C<'_> {
        fn u(&mut self) -> Option<u64> {
            let e = self.1.checked_add(8)?;
            let s = self.0.get(self.1..e)?;
            self.1 = e;
            Some(u64::from_le_bytes(s.try_into().unwrap()))
        }
        fn skip(&mut self, n: u64, sz: usize) -> Option<()> {
            let t = (sz as u64).checked_mul(n)?;
            let e = (self.1 as u64).checked_add(t)?;
            if e > self.0.len() as u64 {
                return None;
            }
            self.1 = e as usize;
            Some(())
        }
    }
    let mut c = C(b, 0);
    let stamp = c.u()?;
    let prev_stored = c.u()?;
    let _stored = c.u()?;
    let trunc = c.u()?;
    let start = prev_stored.checked_sub(trunc)?;
    c.skip(trunc, sz)?;
    let pp = c.u()?;
    c.skip(pp, sz)?;
    let p = c.u()?;
    c.skip(p, sz)?;
    let (mut mods, mut holes) = (0, 0);
    if raw {
        mods = c.u()?;
        c.skip(mods, 8)?;
        c.skip(mods, sz)?;
        let n = c.u()?;
        let at = c.1;
        c.skip(n, 8)?;
        // deleted slots are a set: equal entries (possible after a mutation) count once
        holes = b[at..c.1].chunks(8).collect::<std::collections::BTreeSet<_>>().len() as u64;
    }
    Some((stamp, prev_stored as usize, start as usize, trunc as usize, pp as usize, mods as usize, holes as usize))
}

fn check_change(ty: ChangeTy, bytes: &[u8]) -> Result<bool, String> {
    use vecdb::verif::{parse_base_change, parse_raw_change};
    let want = ref_change(bytes, ty.size(), ty.raw());
    let (got, req) = decode(|| match ty {
        ChangeTy::RawU16 => parse_raw_change::<u16, BytesStrategy<u16>>(bytes),
        ChangeTy::RawU32 => parse_raw_change::<u32, BytesStrategy<u32>>(bytes),
        ChangeTy::RawU64 => parse_raw_change::<u64, BytesStrategy<u64>>(bytes),
        ChangeTy::RawA16 => parse_raw_change::<[u8; 16], BytesStrategy<[u8; 16]>>(bytes),
        ChangeTy::BaseU32 => parse_base_change::<u32, BytesStrategy<u32>>(bytes),
        ChangeTy::BasePcoU64 => parse_base_change::<u64, PcodecStrategy<u64>>(bytes),
    })
    .map_err(|e| format!("change record ({ty:?}, {} bytes): {e}", bytes.len()))?;
    alloc_ok("change record", bytes.len(), req)?;
    match (want, got) {
        (None, Err(_)) => Ok(false),
        (None, Ok(s)) => Err(format!("change record ({ty:?}, {} bytes) must be refused (truncated, overflowing or inconsistent counts) but parsed as {s:?}", bytes.len())),
        (Some(w), Err(e)) => Err(format!("change record ({ty:?}, {} bytes) is well-formed ({w:?}) but was refused: {e}", bytes.len())),
        (Some(w), Ok(s)) => {
            let g = (s.prev_stamp, s.prev_stored_len, s.truncated_start, s.truncated_values, s.prev_pushed, s.modifications, s.prev_holes);
            if g != w {
                return Err(format!("change record ({ty:?}) parsed as {g:?}, encoded {w:?} (stamp, prev_stored_len, truncated_start, truncated, prev_pushed, modifications, holes)"));
            }
            Ok(true)
        }
    }
}

// ------------------------------------------------------------------ regions file through the API

#[derive(Clone, Debug, Serialize, Deserialize)]
pub enum Corruption {
    Zero,
    IdLen(u16),
    NonUtf8,
    Start(u16, i8),
    Reserved(u16, i8),
    LenBeyondReserved(u16),
    Garbage(u64),
}

#[derive(Clone, Debug, Serialize, Deserialize)]
pub struct OpenSpec {
    /// (id length, content length)
    pub regions: Vec<(u16, u16)>,
    /// (slot rank, corruption)
    pub corrupt: Vec<(u16, Corruption)>,
}

fn open_spec() -> impl Strategy<Value = OpenSpec> {
    let corruption = prop_oneof![
        1 => Just(Corruption::Zero),
        3 => prop_oneof![Just(1025u16), Just(4064), Just(4065), Just(u16::MAX)].prop_map(Corruption::IdLen),
        2 => Just(Corruption::NonUtf8),
        2 => (0u16..100, prop_oneof![Just(-1i8), Just(1i8)]).prop_map(|(k, d)| Corruption::Start(k, d)),
        2 => (0u16..100, -1i8..=1).prop_map(|(k, d)| Corruption::Reserved(k, d)),
        2 => (1u16..100).prop_map(Corruption::LenBeyondReserved),
        1 => any::<u64>().prop_map(Corruption::Garbage),
    ];
    (
        prop::collection::vec((prop_oneof![3 => 1u16..40, 1 => Just(1024u16), 1 => Just(1023u16)], 1u16..9000), 1..7),
        prop::collection::vec((any::<u16>(), corruption), 0..4),
    )
        .prop_map(|(regions, corrupt)| OpenSpec { regions, corrupt })
}

fn run_open(spec: &OpenSpec, obs: &mut Obs) -> Result<(), String> {
    let dir = Scratch::new("c17");
    let path = dir.path().join("db");
    let e = |what: &str, e: rawdb::Error| format!("{what}: {e}");
    // (id, start, len, reserved, content)
    let mut recorded: Vec<(String, usize, usize, usize, Vec<u8>)> = vec![];
    {
        let db = Database::open(&path).map_err(|x| e("open", x))?;
        for (i, (idl, cl)) in spec.regions.iter().enumerate() {
            let mut id = format!("r{i}_");
            while id.len() < *idl as usize {
                id.push((b'a' + (id.len() % 26) as u8) as char);
            }
            let r = db.create_region_if_needed(&id).map_err(|x| e("create_region_if_needed", x))?;
            // a region that never received a byte is not persisted at all (rawdb writes the slot with the first data)
            let content = pat_bytes(i as u8 + 1, 0, (*cl as usize).max(1));
            r.write(&content).map_err(|x| e("write", x))?;
            let m = r.meta();
            recorded.push((id, m.start(), m.len(), m.reserved(), content));
        }
        db.flush().map_err(|x| e("flush", x))?;
        for (i, rec) in recorded.iter_mut().enumerate() {
            let r = db.get_region(&rec.0).ok_or("region vanished")?;
            let m = r.meta();
            (rec.1, rec.2, rec.3) = (m.start(), m.len(), m.reserved());
            let _ = i;
        }
    }
    let file = path.join("regions");
    let mut bytes = std::fs::read(&file).map_err(|x| format!("read regions file: {x}"))?;
    if bytes.len() != recorded.len() * META_SIZE {
        return Err(format!("regions file has {} bytes for {} regions", bytes.len(), recorded.len()));
    }
    // the real encoder's output decodes (reference decoder) to what the API reported
    for (i, rec) in recorded.iter().enumerate() {
        let slot = &bytes[i * META_SIZE..(i + 1) * META_SIZE];
        let want = RefMeta { start: rec.1 as u64, len: rec.2 as u64, reserved: rec.3 as u64, id: rec.0.as_bytes().to_vec() };
        if ref_meta(slot).as_ref() != Some(&want) {
            return Err(format!("slot {i} written by the library does not hold {want:?} (reference decoder: {:?})", ref_meta(slot)));
        }
        check_meta(slot, "slot written by the library")?;
    }
    let mut dead = vec![false; recorded.len()];
    for (rank, c) in &spec.corrupt {
        let i = crate::common::rank(*rank, recorded.len());
        let slot = &mut bytes[i * META_SIZE..(i + 1) * META_SIZE];
        let before = slot.to_vec();
        let set = |s: &mut [u8], w: usize, v: u64| s[w * 8..w * 8 + 8].copy_from_slice(&v.to_le_bytes());
        match c {
            Corruption::Zero => slot.fill(0),
            Corruption::IdLen(n) => set(slot, 3, *n as u64),
            Corruption::NonUtf8 => slot[32] = 0xFF,
            Corruption::Start(k, d) => set(slot, 0, (4096 * *k as u64).wrapping_add(*d as i64 as u64)),
            Corruption::Reserved(k, d) => set(slot, 2, (4096 * *k as u64).wrapping_add(*d as i64 as u64)),
            Corruption::LenBeyondReserved(n) => {
                let r = u64::from_le_bytes(slot[16..24].try_into().unwrap());
                set(slot, 1, r + *n as u64)
            }
            Corruption::Garbage(s) => {
                let mut x = *s;
                for ch in slot.chunks_mut(8) {
                    x = splitmix64(x);
                    ch.copy_from_slice(&x.to_le_bytes());
                }
            }
        }
        if ref_meta(slot).is_some() {
            // still a valid slot (e.g. reserved set to another page multiple): not a validation failure, undo
            slot.copy_from_slice(&before);
            obs.label("corruption-still-valid-undone");
        } else {
            dead[i] = true;
        }
    }
    std::fs::write(&file, &bytes).map_err(|x| format!("write regions file: {x}"))?;
    let n_dead = dead.iter().filter(|d| **d).count();
    if n_dead > 0 {
        obs.label("open:invalid-slot");
    }
    let db = match catch_panic(|| Database::open(&path)) {
        Err(p) => return Err(format!("Database::open panicked on a regions file with {n_dead} invalid slot(s): {p}")),
        Ok(Err(x)) => return Err(format!("Database::open failed on a regions file with {n_dead} invalid slot(s) (they must be ignored): {x}")),
        Ok(Ok(db)) => db,
    };
    for (i, rec) in recorded.iter().enumerate() {
        let got = db.get_region(&rec.0);
        match (dead[i], got) {
            (true, None) => {}
            (true, Some(_)) => return Err(format!("slot {i} fails validation but region '{}' was loaded", short(&rec.0))),
            (false, None) => return Err(format!("valid slot {i} ('{}') was not loaded after {n_dead} other slot(s) were invalidated", short(&rec.0))),
            (false, Some(r)) => {
                let m = r.meta();
                if (m.start(), m.len(), m.reserved()) != (rec.1, rec.2, rec.3) {
                    return Err(format!("valid slot {i}: loaded start/len/reserved {:?}, stored {:?}", (m.start(), m.len(), m.reserved()), (rec.1, rec.2, rec.3)));
                }
                drop(m);
                let reader = r.create_reader();
                if reader.read_all() != rec.4.as_slice() {
                    return Err(format!("valid slot {i}: contents differ after other slots were invalidated"));
                }
            }
        }
    }
    let loaded = db.regions().index_to_region().iter().flatten().count();
    if loaded != recorded.len() - n_dead {
        return Err(format!("{loaded} regions loaded, {} valid slots", recorded.len() - n_dead));
    }
    // "without disturbing the valid ones" also means they stay usable: a length-changing write to every valid
    // region, flush, reopen - each must come back with its new length and contents (a region bound to the wrong
    // slot looks fine until its metadata is written again)
    let mut grown: Vec<(String, Vec<u8>)> = vec![];
    for (i, rec) in recorded.iter().enumerate() {
        if dead[i] {
            continue;
        }
        let r = db.get_region(&rec.0).ok_or("region vanished")?;
        let extra: Vec<u8> = (0..(5 + 3 * i)).map(|k| (k * 7 + i) as u8 | 1).collect();
        r.write(&extra).map_err(|x| format!("valid slot {i}: append after the open failed: {x}"))?;
        let mut want = rec.4.clone();
        want.extend_from_slice(&extra);
        grown.push((rec.0.clone(), want));
    }
    db.flush().map_err(|x| format!("flush after the open: {x}"))?;
    drop(db);
    let db = match catch_panic(|| Database::open(&path)) {
        Err(p) => return Err(format!("second Database::open (after appending to the valid regions of a file with {n_dead} invalid slot(s)) panicked: {p}")),
        Ok(Err(x)) => return Err(format!("second Database::open (after appending to the valid regions of a file with {n_dead} invalid slot(s)) failed: {x}")),
        Ok(Ok(db)) => db,
    };
    for (id, want) in &grown {
        let r = db.get_region(id).ok_or_else(|| format!("region '{}' is gone after append + flush + reopen ({n_dead} invalid slot(s) in the file)", short(id)))?;
        let got = r.create_reader().read_all().to_vec();
        if &got != want {
            return Err(format!(
                "region '{}' after append + flush + reopen ({n_dead} invalid slot(s) in the file): {} bytes read, {} expected{}",
                short(id),
                got.len(),
                want.len(),
                if got.len() == want.len() { " (contents differ)" } else { "" }
            ));
        }
    }
    let loaded = db.regions().index_to_region().iter().flatten().count();
    if loaded != grown.len() {
        return Err(format!("{loaded} regions loaded after append + flush + reopen, {} valid slots", grown.len()));
    }
    if n_dead > 0 && n_dead < recorded.len() {
        obs.set_nontrivial();
    }
    Ok(())
}

fn short(s: &str) -> String {
    if s.len() > 24 { format!("{}…({} bytes)", &s[..20], s.len()) } else { s.to_string() }
}

// ------------------------------------------------------------------ the property

#[derive(Clone, Debug, Serialize, Deserialize)]
pub enum Case {
    Meta(MetaSpec, Mutation),
    Header { hv: Num, vv: Num, cv: Num, stamp: Num, fmt: u8, mu: Mutation },
    Page { start: Num, bytes: Num, values: Num, raw: bool, mu: Mutation },
    Value { ty: u8, seed: u64, delta: i8 },
    Change(ChangeSpec, Mutation),
    Open(OpenSpec),
}

pub struct P;

impl Prop for P {
    type Case = Case;
    const ID: &'static str = "C17";
    const ENGINE: &'static str = "E7-codec";

    fn cases(tier: Tier) -> u32 {
        tier.pick(192000, 1_500_000)
    }

    fn strategy(_tier: Tier) -> BoxedStrategy<Case> {
        let fmt = prop_oneof![6 => prop_oneof![Just(0u8), Just(1), Just(64), Just(65), Just(66)], 1 => any::<u8>()];
        let change = (
            prop_oneof![Just(ChangeTy::RawU16), Just(ChangeTy::RawU32), Just(ChangeTy::RawU64), Just(ChangeTy::RawA16), Just(ChangeTy::BaseU32), Just(ChangeTy::BasePcoU64)],
            num(),
            prop_oneof![4 => (0u16..5000).prop_map(Num::Small), 1 => num()],
            num(),
            (0u8..12, 0u8..12, 0u8..12, 0u8..6, 0u8..6),
        )
            .prop_map(|(ty, stamp, keep, stored_len, (truncated, prev_pushed, pushed, mods, holes))| ChangeSpec { ty, stamp, keep, stored_len, truncated, prev_pushed, pushed, mods, holes });
        prop_oneof![
            6 => (meta_spec(), mutation()).prop_map(|(m, mu)| Case::Meta(m, mu)),
            2 => (num(), num(), num(), num(), fmt, mutation()).prop_map(|(hv, vv, cv, stamp, fmt, mu)| Case::Header { hv, vv, cv, stamp, fmt, mu }),
            2 => (num(), num(), num(), any::<bool>(), mutation()).prop_map(|(start, bytes, values, raw, mu)| Case::Page { start, bytes, values, raw, mu }),
            2 => (any::<u8>(), any::<u64>(), -9i8..=9).prop_map(|(ty, seed, delta)| Case::Value { ty, seed, delta }),
            8 => (change, mutation()).prop_map(|(c, mu)| Case::Change(c, mu)),
            1 => open_spec().prop_map(Case::Open),
        ]
        .boxed()
    }

    fn run(case: &Case, obs: &mut Obs) -> Result<(), String> {
        match case {
            Case::Meta(m, mu) => {
                obs.label("codec:region-metadata");
                let b = mu.apply(encode_meta(m), &[0, 8, 16, 24]);
                let ok = check_meta(&b, "region metadata")?;
                if ok {
                    obs.label("meta:accepted");
                    if m.id_bytes == 1024 {
                        obs.label("meta:id-1024-accepted");
                    }
                } else if b.len() == META_SIZE {
                    obs.label("meta:refused-full-size-slot");
                    if m.id_bytes == 1025 {
                        obs.label("meta:id-1025-refused");
                    }
                }
                if mu.is_some() && b.len() == META_SIZE {
                    obs.set_nontrivial();
                }
            }
            Case::Header { hv, vv, cv, stamp, fmt, mu } => {
                obs.label("codec:header");
                let mut b = vec![0u8; vecdb::verif::HEADER_LEN];
                b[0..4].copy_from_slice(&(hv.get() as u32).to_le_bytes());
                b[4..8].copy_from_slice(&(vv.get() as u32).to_le_bytes());
                b[8..12].copy_from_slice(&(cv.get() as u32).to_le_bytes());
                b[12..20].copy_from_slice(&stamp.get().to_le_bytes());
                b[20] = *fmt;
                if let Some(f) = ref_format(*fmt) {
                    // the real encoder produces exactly these bytes
                    let enc = vecdb::verif::header_to_bytes((Version::new(hv.get() as u32), Version::new(vv.get() as u32), Version::new(cv.get() as u32), Stamp::from(stamp.get()), f));
                    if enc != b {
                        return Err(format!("header encoder wrote {enc:02x?}, the format says {b:02x?}"));
                    }
                }
                let b = mu.apply(b, &[12]);
                if check_header(&b)? {
                    obs.label("header:accepted");
                }
                if mu.is_some() && b.len() >= vecdb::verif::HEADER_LEN {
                    obs.set_nontrivial();
                }
            }
            Case::Page { start, bytes, values, raw, mu } => {
                obs.label("codec:page-entry");
                let (s, by, v) = (start.get(), bytes.get() as u32, values.get() as u32 & 0x7FFF_FFFF);
                let enc = vecdb::verif::page_to_bytes(s, by, v, *raw);
                let mut want = vec![];
                want.extend(s.to_le_bytes());
                want.extend(by.to_le_bytes());
                want.extend((v | (*raw as u32) << 31).to_le_bytes());
                if enc != want {
                    return Err(format!("page encoder wrote {enc:02x?} for (start {s}, bytes {by}, values {v}, raw {raw}); the format says {want:02x?}"));
                }
                let b = mu.apply(enc, &[0, 8]);
                check_page(&b)?;
                if mu.is_some() && b.len() >= 16 {
                    obs.set_nontrivial();
                }
            }
            Case::Value { ty, seed, delta } => {
                obs.label("codec:value");
                check_value_ty(*ty, *seed, *delta)?;
                if *delta != 0 {
                    obs.label("value:wrong-length");
                    obs.set_nontrivial();
                }
            }
            Case::Change(c, mu) => {
                obs.label(if c.ty.raw() { "codec:raw-change-record" } else { "codec:base-change-record" });
                let (b, words) = encode_change(c);
                let b = mu.apply(b, &words);
                let ok = check_change(c.ty, &b)?;
                if ok {
                    obs.label("change:accepted");
                } else if b.len() >= 32 {
                    obs.label("change:refused-after-fixed-fields");
                }
                if let Mutation::SetWord(..) = mu {
                    if !ok && b.len() >= 32 {
                        obs.label("change:count-field-boundary-refused");
                    }
                }
                if mu.is_some() && b.len() >= 32 {
                    obs.set_nontrivial();
                }
            }
            Case::Open(spec) => {
                obs.label("codec:regions-file-open");
                run_open(spec, obs)?;
            }
        }
        Ok(())
    }

    fn rule() -> String {
        "one codec per case: region metadata slots (start/len/reserved from {small, 4096k+-1, 2^32+-1, 2^63+-1, u64::MAX-d, random}, ids of 0/1/../1023/1024/1025/4064 bytes, ASCII / multi-byte / non-UTF-8 / control, declared id length independent of the bytes), vector headers, page-index entries, value encodings of 30 types (all numeric types, byte arrays, derived wrapper, Stamp, Version), raw and base change records; each valid encoding is then left alone, truncated at a generated length, bit-flipped (biased to the fixed fields), given a boundary value in one of its length/count words, extended, or replaced by arbitrary bytes. Oracle: an independent reference decoder written from the on-disk format decides accept/refuse and the decoded fields; the library must agree exactly (accepting an invalid encoding, refusing a valid one, or decoding different fields is a violation), must not panic, and must not request a single allocation above 2x input + 512 bytes (counting global allocator). Encoders are compared byte-for-byte with the format. Open cases: a database with 1..6 regions is flushed, slots of its regions file are invalidated (zeroed, id length 1025/4064/4065/65535, non-UTF-8 id, unaligned start, reserved unaligned or < page, len > reserved, garbage) and Database::open must succeed, skip exactly the invalid slots and load the others with identical metadata and contents; every loaded region is then appended to, the database flushed and reopened, and each must come back with its new length and contents. Non-trivial: a mutated encoding that passes the first length check (full-size slot, >= 32-byte header, >= 16-byte page entry, change record with its four fixed words), a wrong-length value decode, or an open with both invalid and valid slots.".into()
    }

    fn mandatory_labels() -> &'static [&'static str] {
        &[
            "codec:region-metadata",
            "codec:header",
            "codec:page-entry",
            "codec:value",
            "codec:raw-change-record",
            "codec:base-change-record",
            "codec:regions-file-open",
            "meta:accepted",
            "meta:id-1024-accepted",
            "meta:id-1025-refused",
            "meta:refused-full-size-slot",
            "change:accepted",
            "change:count-field-boundary-refused",
            "open:invalid-slot",
            "value:wrong-length",
        ]
    }

    fn assumptions() -> Vec<String> {
        vec![
            "the reference decoders in harness/src/props/c17.rs state the on-disk formats (little-endian fixed fields, 4096-byte metadata slots, 32-byte header with the format byte at offset 20, 16-byte page entries with the raw flag in the top bit of the count) and the validity rules the property names".into(),
            "private decoders are reached through the public wrappers of hook H9 (vecdb::verif)".into(),
            "the libFuzzer campaign planned for the thorough tier is not built; thorough = more proptest cases".into(),
        ]
    }
}
