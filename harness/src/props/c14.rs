//! C14 vecdb: import keeps matching data; discards only on a real version/format change.
use std::collections::{BTreeMap, BTreeSet};

use proptest::prelude::*;
use proptest::strategy::BoxedStrategy;
use rawdb::Database;
use serde::{Deserialize, Serialize};
use vecdb::{AnyStoredVec, AnyVec, BytesVec, EagerVec, ImportOptions, ImportableVec, LZ4Vec, PcoVec, Version, ZeroCopyVec, ZstdVec};

use crate::common::runner::{Prop, catch_panic};
use crate::common::tmp::Scratch;
use crate::common::{Obs, Tier};
use crate::vecmodel::{Elem, Fmt, OpMix, RunLen, Sut, Ty, VModel, VOp, VecCfg, VecKind, open_db, vop_strategy};

#[derive(Clone, Copy, Debug, Serialize, Deserialize, PartialEq, Eq)]
pub enum Entry {
    Import,
    ImportWith,
    ForcedImport,
    ForcedImportWith,
}

impl Entry {
    fn forced(self) -> bool {
        matches!(self, Entry::ForcedImport | Entry::ForcedImportWith)
    }
}

#[derive(Clone, Copy, Debug, Serialize, Deserialize, PartialEq, Eq)]
pub enum Damage {
    None,
    /// format byte of the stored header replaced by a value no format uses
    FormatByte(u8),
    /// header layout version replaced
    HeaderVersion(u32),
    /// region cut inside the header (1..=31 bytes left)
    Short(u8),
    /// header intact, 1..size-1 stray bytes appended to the data region of a raw vector (a torn last element): the
    /// stored version and format are still readable
    TornTail(u8),
}

#[derive(Clone, Debug, Serialize, Deserialize)]
pub struct Case {
    pub ty: Ty,
    pub fmt_a: Fmt,
    pub entry_a: Entry,
    pub version_a: u32,
    pub ops: Vec<VOp>,
    pub damage: Damage,
    pub fmt_b: Fmt,
    pub entry_b: Entry,
    pub version_b: u32,
    pub retention: u16,
    pub after: Vec<VOp>,
    /// a read-only clone of the stored vector is still alive when a forced import meets a mismatch: the import
    /// cannot remove the referenced data region, so it must either succeed or leave everything as it was
    #[serde(default)]
    pub hold_clone: bool,
}

fn disk(f: Fmt) -> Fmt {
    match f {
        Fmt::EagerBytes => Fmt::Bytes,
        Fmt::EagerPco => Fmt::Pco,
        f => f,
    }
}

fn call<V: VecKind>(entry: Entry, db: &Database, name: &str, version: u32, retention: u16) -> Result<vecdb::Result<V>, String>
where
    V::T: Elem,
{
    let version = Version::new(version);
    catch_panic(|| match entry {
        Entry::Import => V::import(db, name, version),
        Entry::ImportWith => V::import_with(ImportOptions::new(db, name, version).with_saved_stamped_changes(retention)),
        Entry::ForcedImport => V::forced_import(db, name, version),
        Entry::ForcedImportWith => V::forced_import_with(ImportOptions::new(db, name, version).with_saved_stamped_changes(retention)),
    })
    .map_err(|p| format!("{entry:?} panicked: {p}"))
}

fn snapshot(db: &Database) -> BTreeMap<String, Vec<u8>> {
    let regions: Vec<_> = db.regions().index_to_region().iter().flatten().cloned().collect();
    regions
        .into_iter()
        .map(|r| {
            let id = r.meta().id().to_string();
            let bytes = r.create_reader().read_all().to_vec();
            (id, bytes)
        })
        .collect()
}

fn snap_diff(a: &BTreeMap<String, Vec<u8>>, b: &BTreeMap<String, Vec<u8>>) -> Option<String> {
    let ka: BTreeSet<_> = a.keys().collect();
    let kb: BTreeSet<_> = b.keys().collect();
    if ka != kb {
        return Some(format!("regions before {ka:?}, after {kb:?}"));
    }
    for (k, v) in a {
        if &b[k] != v {
            return Some(format!("region '{k}' changed ({} -> {} bytes)", v.len(), b[k].len()));
        }
    }
    None
}

/// What stage 1 hands to stage 2 (the second vector type is a different generic instantiation).
struct Stage1<T: Elem> {
    dir: Scratch,
    db: Database,
    model: VModel<T>,
    seq: u64,
    /// plain import under the creating format/version: Ok(()) when it returns exactly `model`
    reopen_a: Box<dyn Fn(&Database, &VModel<T>) -> Result<(), String>>,
    held: Option<vecdb::ReadableBoxedVec<usize, T>>,
}

fn mk_sut<V: VecKind>(dir: Scratch, db: Database, vec: V, cfg: VecCfg, version: u32, model: VModel<V::T>, seq: u64) -> Sut<V>
where
    V::T: Elem,
{
    Sut {
        dir,
        db,
        vec: Some(vec),
        name: "v".into(),
        version: Version::new(version),
        cfg,
        model,
        seq,
        commit_mode: false,
        wrote_after_divergence: false,
        reimport_with_holes: false,
        regimes: BTreeSet::new(),
    }
}

fn stage1<A: VecKind>(case: &Case, obs: &mut Obs) -> Result<Stage1<A::T>, String>
where
    A::T: Elem,
{
    let dir = Scratch::new("c14");
    let db = open_db(&dir)?;
    let cfg = VecCfg { fmt: case.fmt_a, ty: case.ty, retention: 0 };
    let vec: A = call::<A>(case.entry_a, &db, "v", case.version_a, 0)?.map_err(|e| format!("creating through {:?}: {e}", case.entry_a))?;
    if vec.len() != 0 {
        return Err(format!("a vector created through {:?} has len {}", case.entry_a, vec.len()));
    }
    let mut sut = mk_sut::<A>(dir, db, vec, cfg, case.version_a, VModel::new(), 1);
    // import() / forced_import() take no options: re-imports inside the history use import_with with retention 0
    for (i, op) in case.ops.iter().enumerate() {
        sut.apply(op, obs).map_err(|e| format!("building the stored vector, op #{i} {op:?}: {e}"))?;
        sut.observe().map_err(|e| format!("building the stored vector, after op #{i} {op:?}: {e}"))?;
    }
    // flush, drop, import again under the same version and format: the matching plain import
    sut.reimport(obs)?;
    sut.observe().map_err(|e| format!("matching import_with after the history: {e}"))?;
    if sut.model.has_holes() {
        obs.label("stored:holes-region");
    }
    if sut.model.items.len() > sut.per_page() {
        obs.label("stored:several-pages");
    }
    if sut.model.items.is_empty() {
        obs.label("stored:empty");
    }
    let mismatch = disk(case.fmt_a) != disk(case.fmt_b) || case.version_a != case.version_b;
    let held = (case.hold_clone && mismatch && case.entry_b.forced() && case.damage == Damage::None).then(|| {
        use vecdb::ReadableCloneableVec;
        sut.v().read_only_boxed_clone()
    });
    drop(sut.vec.take());
    let Sut { dir, db, model, seq, .. } = sut;
    let (va, cfg_a) = (case.version_a, cfg);
    let reopen_a = Box::new(move |db: &Database, model: &VModel<A::T>| -> Result<(), String> {
        let v: A = call::<A>(Entry::ImportWith, db, "v", va, 0)?.map_err(|e| format!("import_with under the creating version/format failed: {e}"))?;
        // a throw-away Sut sharing the directory is not needed: compare through a borrowed view
        let tmp = Scratch::new("c14-view");
        let view_db = db.clone();
        let s = mk_sut::<A>(tmp, view_db, v, cfg_a, va, clone_model(model), 0);
        s.observe()
    });
    Ok(Stage1 { dir, db, model, seq, reopen_a, held })
}

fn clone_model<T: Elem>(m: &VModel<T>) -> VModel<T> {
    let mut n = VModel::new();
    n.items = m.items.clone();
    n.stamp = m.stamp;
    n.stored = m.stored;
    n
}

fn stage2<B: VecKind>(s1: Stage1<B::T>, case: &Case, obs: &mut Obs) -> Result<(), String>
where
    B::T: Elem,
{
    let Stage1 { dir, db, model, seq, reopen_a, held } = s1;
    // optional damage to the stored header, through rawdb
    if case.damage != Damage::None {
        let region = db.get_region("v/usize").ok_or("the vector's region 'v/usize' does not exist")?;
        let e = |x: rawdb::Error| format!("damaging the header: {x}");
        match case.damage {
            Damage::FormatByte(b) => region.write_at(&[b], 20).map_err(e)?,
            Damage::HeaderVersion(v) => region.write_at(&v.to_le_bytes(), 0).map_err(e)?,
            Damage::Short(n) => region.truncate(n as usize).map_err(e)?,
            Damage::TornTail(k) => region.write(&vec![0xAB; 1 + k as usize % (B::T::SIZE - 1)]).map_err(e)?,
            Damage::None => {}
        }
        drop(region);
        db.flush().map_err(|x| format!("db.flush(): {x}"))?;
        obs.label(if matches!(case.damage, Damage::TornTail(_)) { "stored:torn-tail" } else { "stored:damaged-header" });
    }
    let before = snapshot(&db);
    let same_format = disk(case.fmt_a) == disk(case.fmt_b);
    let same_version = case.version_a == case.version_b;
    let matching = same_format && same_version && case.damage == Damage::None;
    let tag = format!(
        "stored {:?} v{} (created through {:?}), requested {:?} v{} through {:?}{}",
        case.fmt_a,
        case.version_a,
        case.entry_a,
        case.fmt_b,
        case.version_b,
        case.entry_b,
        if case.damage == Damage::None { String::new() } else { format!(", {:?}", case.damage) }
    );
    let got = call::<B>(case.entry_b, &db, "v", case.version_b, case.retention).map_err(|e| format!("{tag}: {e}"))?;
    let cfg_b = VecCfg { fmt: case.fmt_b, ty: case.ty, retention: case.retention };
    obs.label(match (matching, case.entry_b.forced()) {
        (true, false) => "match+plain",
        (true, true) => "match+forced",
        (false, false) => "mismatch+plain",
        (false, true) => "mismatch+forced",
    });
    if !same_format && case.damage == Damage::None {
        obs.label("mismatch:format");
    }
    if !same_version && case.damage == Damage::None {
        obs.label("mismatch:version");
    }
    if matches!(case.damage, Damage::TornTail(_)) && same_format && same_version {
        // version and format match and the header says so: neither entry point may discard anything. Refusing
        // (the region is not a whole number of values) leaves the database alone; accepting returns the contents.
        obs.label(if case.entry_b.forced() { "torn-tail:match+forced" } else { "torn-tail:match+plain" });
        return match got {
            Err(e) => match snap_diff(&before, &snapshot(&db)) {
                Some(d) => Err(format!("{tag}: version and format match; the import failed ({e}) and still modified the database: {d}")),
                None => {
                    if !model.items.is_empty() && case.entry_b.forced() {
                        obs.set_nontrivial();
                    }
                    Ok(())
                }
            },
            Ok(v) => {
                let sut = mk_sut::<B>(dir, db, v, cfg_b, case.version_b, model, seq);
                sut.observe().map_err(|e| format!("{tag}: version and format match (stray bytes after the last value) but the stored contents were not returned: {e}"))
            }
        };
    }
    if matching {
        // returns the stored contents, through either entry point
        let v = got.map_err(|e| format!("{tag}: version and format match but the import failed: {e}"))?;
        let mut sut = mk_sut::<B>(dir, db, v, cfg_b, case.version_b, model, seq);
        sut.observe().map_err(|e| format!("{tag}: version and format match but the stored contents were not returned: {e}"))?;
        for (i, op) in case.after.iter().enumerate() {
            sut.apply(op, obs).map_err(|e| format!("{tag}: continuing, op #{i} {op:?}: {e}"))?;
        }
        sut.reimport(obs)?;
        sut.observe().map_err(|e| format!("{tag}: after continuing and re-importing: {e}"))?;
        if case.entry_b.forced() && !sut.model.items.is_empty() {
            obs.set_nontrivial();
        }
        return Ok(());
    }
    if !case.entry_b.forced() {
        // plain import: refused with a version / format error, data untouched
        match got {
            Ok(v) => return Err(format!("{tag}: the plain import succeeded (len {})", v.len())),
            Err(e) => {
                let expected = match case.damage {
                    Damage::None => matches!(e, vecdb::Error::DifferentVersion { .. } | vecdb::Error::DifferentFormat { .. }),
                    // an unreadable header: any refusal
                    _ => true,
                };
                if !expected {
                    return Err(format!("{tag}: the plain import failed with '{e}', not with a version or format error"));
                }
            }
        }
        if let Some(d) = snap_diff(&before, &snapshot(&db)) {
            return Err(format!("{tag}: the refused import modified the database: {d}"));
        }
        if case.damage == Damage::None {
            reopen_a(&db, &model).map_err(|e| format!("{tag}: after the refused import, importing under the creating version/format: {e}"))?;
            if !model.items.is_empty() {
                obs.set_nontrivial();
            }
        }
        return Ok(());
    }
    // forced import on a mismatch (or unreadable header)
    let v = match got {
        Ok(v) => {
            drop(held);
            v
        }
        Err(e) if held.is_some() => {
            // refused because the data region is still referenced: nothing may have been discarded
            obs.label("mismatch+forced:refused-while-clone-held");
            if let Some(d) = snap_diff(&before, &snapshot(&db)) {
                return Err(format!("{tag}: the forced import failed ({e}) while a read-only clone was alive and still modified the database: {d}"));
            }
            drop(held);
            reopen_a(&db, &model).map_err(|e| format!("{tag}: after the refused forced import (clone alive), importing under the creating version/format: {e}"))?;
            if model.has_holes() {
                obs.label("mismatch+forced:refused-while-clone-held+holes");
            }
            if !model.items.is_empty() {
                obs.set_nontrivial();
            }
            return Ok(());
        }
        Err(e) => {
            if case.damage == Damage::None {
                return Err(format!("{tag}: the forced import failed: {e}"));
            }
            // unreadable header: refusing is allowed, but then nothing may have been discarded
            if let Some(d) = snap_diff(&before, &snapshot(&db)) {
                return Err(format!("{tag}: the forced import failed ({e}) and still modified the database: {d}"));
            }
            obs.label("damaged:forced-refused");
            return Ok(());
        }
    };
    let had = model.items.len();
    let had_holes = model.has_holes();
    let mut sut = mk_sut::<B>(dir, db, v, cfg_b, case.version_b, VModel::new(), seq);
    sut.observe().map_err(|e| format!("{tag}: the forced import must return an empty vector ({had} elements were stored): {e}"))?;
    for (i, op) in case.after.iter().enumerate() {
        sut.apply(op, obs).map_err(|e| format!("{tag}: using the reset vector, op #{i} {op:?}: {e}"))?;
        sut.observe().map_err(|e| format!("{tag}: using the reset vector, after op #{i} {op:?}: {e}"))?;
    }
    sut.reimport(obs)?;
    sut.observe().map_err(|e| format!("{tag}: reset vector after continuing and re-importing: {e}"))?;
    if case.damage == Damage::None && reopen_a(&sut.db, &model).is_ok() && had > 0 {
        return Err(format!("{tag}: after the forced import discarded the data, a plain import under the OLD version/format still succeeds and returns the old contents"));
    }
    if had > 0 {
        obs.set_nontrivial();
        if had_holes {
            obs.label("forced-reset-of-vector-with-holes");
        }
    }
    Ok(())
}

macro_rules! by_fmt {
    ($fmt:expr, $t:ty, $eager:ty, $f:ident, ($($a:expr),*)) => {
        match $fmt {
            Fmt::Bytes => $f::<BytesVec<usize, $t>>($($a),*),
            Fmt::ZeroCopy => $f::<ZeroCopyVec<usize, $t>>($($a),*),
            Fmt::Pco => $f::<PcoVec<usize, $t>>($($a),*),
            Fmt::Lz4 => $f::<LZ4Vec<usize, $t>>($($a),*),
            Fmt::Zstd => $f::<ZstdVec<usize, $t>>($($a),*),
            Fmt::EagerBytes | Fmt::EagerPco => $f::<$eager>($($a),*),
        }
    };
}

const FMTS_U32: [Fmt; 6] = [Fmt::Bytes, Fmt::ZeroCopy, Fmt::Pco, Fmt::Lz4, Fmt::Zstd, Fmt::EagerBytes];
const FMTS_U64: [Fmt; 6] = [Fmt::Bytes, Fmt::ZeroCopy, Fmt::Pco, Fmt::Lz4, Fmt::Zstd, Fmt::EagerPco];

pub struct P;

impl Prop for P {
    type Case = Case;
    const ID: &'static str = "C14";
    const ENGINE: &'static str = "E3-vecmodel";

    fn cases(tier: Tier) -> u32 {
        tier.pick(24000, 80000)
    }

    fn strategy(tier: Tier) -> BoxedStrategy<Case> {
        let n = tier.pick(8usize, 20);
        let entry = || prop_oneof![Just(Entry::Import), Just(Entry::ImportWith), Just(Entry::ForcedImport), Just(Entry::ForcedImportWith)];
        let version = || prop_oneof![3 => Just(7u32), 2 => Just(8u32), 1 => Just(0u32), 1 => Just(u32::MAX), 1 => any::<u32>()];
        (any::<bool>(), 0usize..6, 0usize..6, any::<bool>())
            .prop_flat_map(move |(wide, ia, ib, same_fmt)| {
                let (ty, fmts) = if wide { (Ty::U64, FMTS_U64) } else { (Ty::U32, FMTS_U32) };
                let fmt_a = fmts[ia];
                let fmt_b = if same_fmt { fmt_a } else { fmts[ib] };
                let mix_a = OpMix { raw_ops: fmt_a.is_raw(), rollback_ops: false, plain_writes: true, reimport: true, reset: false };
                let mix_b = OpMix { raw_ops: fmt_b.is_raw(), rollback_ops: false, plain_writes: true, reimport: false, reset: false };
                let damage = prop_oneof![
                    10 => Just(Damage::None),
                    1 => prop_oneof![Just(2u8), Just(63), Just(67), Just(255)].prop_map(Damage::FormatByte),
                    1 => prop_oneof![Just(0u32), Just(u32::MAX), any::<u32>()].prop_map(Damage::HeaderVersion),
                    1 => (1u8..32).prop_map(Damage::Short),
                    if disk(fmt_a) == Fmt::Bytes || disk(fmt_a) == Fmt::ZeroCopy { 2 } else { 0 } => any::<u8>().prop_map(Damage::TornTail),
                ];
                (
                    (entry(), version(), prop::collection::vec(vop_strategy(mix_a), 0..=n), any::<u16>()),
                    damage,
                    (entry(), version(), any::<bool>(), prop_oneof![Just(0u16), Just(2u16)], prop::collection::vec(vop_strategy(mix_b), 0..=n / 2)),
                )
                    .prop_map(move |((entry_a, version_a, mut ops, pat), damage, (entry_b, vb, same_version, retention, after))| {
                        // most stored vectors hold data
                        ops.insert(0, VOp::PushRun { n: RunLen::Small((pat % 23) as u8), pat });
                        let version_b = if same_version { version_a } else { vb };
                        Case { ty, fmt_a, entry_a, version_a, ops, damage, fmt_b, entry_b, version_b, retention, after, hold_clone: pat % 5 == 0 }
                    })
            })
            .boxed()
    }

    fn run(case: &Case, obs: &mut Obs) -> Result<(), String> {
        match case.ty {
            Ty::U32 => {
                type E = EagerVec<BytesVec<usize, u32>>;
                let s1 = by_fmt!(case.fmt_a, u32, E, stage1, (case, obs))?;
                by_fmt!(case.fmt_b, u32, E, stage2, (s1, case, obs))
            }
            Ty::U64 => {
                type E = EagerVec<PcoVec<usize, u64>>;
                let s1 = by_fmt!(case.fmt_a, u64, E, stage1, (case, obs))?;
                by_fmt!(case.fmt_b, u64, E, stage2, (s1, case, obs))
            }
            t => Err(format!("element type {t:?} is not part of the C14 matrix")),
        }
    }

    fn rule() -> String {
        "a vector of u32 or u64 is created through one of the four entry points (import, import_with, forced_import, forced_import_with) in one of six formats (bytes, zerocopy, pco, lz4, zstd, eager wrapper) under a generated version, filled by a C03-style history (pushes up to several pages, truncations, writes, flushes, re-imports; raw formats: updates, deletions, hole filling, so that a holes region exists; compressed: a page-index region), flushed and dropped; optionally the stored header is damaged through rawdb (unused format byte, other header version, region cut inside the header) or, for raw formats, 1..size-1 stray bytes are appended after the last value. It is then requested through a generated entry point under a generated (format, version), equal to the stored pair in about a third of the cases. Oracle: match => Ok and exactly the stored contents (len, every element, deleted slots, stamp), and the vector keeps working (generated continuation + re-import against the model); mismatch + plain => Err(DifferentVersion | DifferentFormat), every region of the database byte-identical to before, and a plain import under the creating pair still returns everything; mismatch + forced => Ok, an empty vector (no elements, no deleted slots), the continuation matches a fresh model, and the old pair no longer imports; stray bytes after the last value of a raw vector (header intact) under a matching pair => refused with the database untouched, or the stored contents; under another pair as for a mismatch; in 1 case in 5 a read-only clone of the stored vector is still alive when a forced import meets a mismatch: it then succeeds, or fails with the database untouched and the old pair still importing everything; damaged header => plain import refused with the database untouched, forced import either empty or refused with the database untouched. Non-trivial: a non-empty stored vector met by a mismatch, or by a forced import under a matching pair.".into()
    }

    fn mandatory_labels() -> &'static [&'static str] {
        &[
            "match+plain",
            "match+forced",
            "mismatch+plain",
            "mismatch+forced",
            "mismatch:format",
            "mismatch:version",
            "stored:holes-region",
            "stored:several-pages",
            "stored:damaged-header",
            "torn-tail:match+forced",
            "torn-tail:match+plain",
            "mismatch+forced:refused-while-clone-held",
            "forced-reset-of-vector-with-holes",
        ]
    }

    fn assumptions() -> Vec<String> {
        vec![
            "lock and I/O errors cannot be provoked through the public API in-process, so the clause 'never on lock or I/O errors' is not exercised".into(),
            "the element type is the same on both sides (u32 or u64); a different element width under the same format is not a version/format mismatch and is not generated".into(),
        ]
    }
}
