//! C16 vecdb: rollback is bounded by retention and refuses rather than guesses.
use std::collections::BTreeSet;

use proptest::prelude::*;
use proptest::strategy::BoxedStrategy;
use serde::{Deserialize, Serialize};
use vecdb::{AnyStoredVec, Stamp, WritableVec};

use crate::common::runner::Prop;
use crate::common::{Obs, Tier};
use crate::dispatch_vec;
use crate::vecmodel::{Elem, MATRIX, OpMix, Sut, VOp, VecCfg, VecKind, vop_strategy};

#[derive(Clone, Debug, Serialize, Deserialize)]
pub enum FOp {
    Plain(VOp),
    /// fault sweep on the newest change record, each attempt followed by rollback()
    SweepNewest,
    /// corrupt an older record (rank among the records below the newest), then rollback_before past it
    BreakOlder { which: u16, kind: u8 },
}

#[derive(Clone, Debug, Serialize, Deserialize)]
pub struct Case {
    pub cfg: VecCfg,
    pub ops: Vec<FOp>,
}

pub struct P;

const BAD: [u64; 3] = [1 << 32, 1 << 63, u64::MAX];

/// byte offsets of the count/length fields of a change record
fn field_offsets(bytes: &[u8], size: usize, raw: bool) -> Option<Vec<(usize, &'static str)>> {
    let rd = |at: usize| -> Option<usize> { Some(u64::from_le_bytes(bytes.get(at..at + 8)?.try_into().ok()?) as usize) };
    let mut out = vec![(8usize, "prev_stored_len"), (24usize, "truncated_count")];
    let truncated = rd(24)?;
    let mut pos = 32 + truncated.checked_mul(size)?;
    out.push((pos, "prev_pushed_len"));
    let pp = rd(pos)?;
    pos += 8 + pp.checked_mul(size)?;
    out.push((pos, "pushed_len"));
    let p = rd(pos)?;
    pos += 8 + p.checked_mul(size)?;
    if raw {
        out.push((pos, "modified_len"));
        let m = rd(pos)?;
        pos += 8 + m.checked_mul(8)? + m.checked_mul(size)?;
        out.push((pos, "prev_holes_len"));
        let h = rd(pos)?;
        pos += 8 + h.checked_mul(8)?;
    }
    if pos != bytes.len() {
        return None;
    }
    Some(out)
}

fn dir_stamps<V: VecKind>(sut: &Sut<V>) -> BTreeSet<u64>
where
    V::T: Elem,
{
    let mut out = BTreeSet::new();
    if let Ok(rd) = std::fs::read_dir(sut.changes_dir()) {
        for e in rd.flatten() {
            if let Some(s) = e.file_name().to_str().and_then(|s| s.parse::<u64>().ok()) {
                out.insert(s);
            }
        }
    }
    out
}

fn check_dir<V: VecKind>(sut: &Sut<V>) -> Result<(), String>
where
    V::T: Elem,
{
    let got = dir_stamps(sut);
    let want: BTreeSet<u64> = sut.model.files.keys().copied().collect();
    let k = sut.cfg.retention as usize;
    if got.len() > k {
        return Err(format!("change directory holds {} records, retention is {k}: {got:?}", got.len()));
    }
    if got != want {
        return Err(format!("change directory holds records {got:?}, model expects {want:?}"));
    }
    Ok(())
}

fn expect_refused<V: VecKind>(sut: &mut Sut<V>, h0: u64, what: &str) -> Result<(), String>
where
    V::T: Elem,
{
    match sut.vm().rollback() {
        Err(_) => {}
        Ok(()) => return Err(format!("rollback() accepted a change record that was {what}")),
    }
    if sut.content_hash() != h0 {
        sut.observe().map_err(|e| format!("rollback() refused a record that was {what} but changed the vector: {e}"))?;
        return Err(format!("rollback() refused a record that was {what} but changed the vector"));
    }
    Ok(())
}

fn sweep_newest<V: VecKind>(sut: &mut Sut<V>, obs: &mut Obs, exhaustive_limit: usize) -> Result<bool, String>
where
    V::T: Elem,
{
    if sut.model.dirty_since_commit {
        return Ok(false);
    }
    let stamp = sut.model.stamp;
    if !sut.model.files.contains_key(&stamp) {
        return Ok(false);
    }
    let path = sut.changes_dir().join(stamp.to_string());
    let orig = std::fs::read(&path).map_err(|e| format!("cannot read change record {stamp}: {e}"))?;
    let raw = matches!(sut.cfg.fmt, crate::vecmodel::Fmt::Bytes | crate::vecmodel::Fmt::ZeroCopy | crate::vecmodel::Fmt::EagerBytes);
    let fields = field_offsets(&orig, V::T::SIZE, raw)
        .ok_or_else(|| format!("harness cannot parse its own view of change record {stamp} ({} bytes)", orig.len()))?;
    let h0 = sut.content_hash();
    // 1. truncation at every byte offset (sampled around field boundaries for big records)
    let mut offsets: BTreeSet<usize> = BTreeSet::new();
    if orig.len() <= exhaustive_limit {
        offsets.extend(0..orig.len());
        obs.label("sweep:exhaustive-truncation");
    } else {
        offsets.extend(0..128.min(orig.len()));
        offsets.extend(orig.len().saturating_sub(128)..orig.len());
        for (f, _) in &fields {
            offsets.extend(f.saturating_sub(9)..(*f + 17).min(orig.len()));
        }
        let step = (orig.len() / 97).max(1);
        offsets.extend((0..orig.len()).step_by(step));
    }
    let mut n = 0u64;
    for off in offsets {
        std::fs::write(&path, &orig[..off]).map_err(|e| format!("inject: {e}"))?;
        expect_refused(sut, h0, &format!("truncated to {off} of {} bytes", orig.len())).inspect_err(|_| {
            let _ = std::fs::write(&path, &orig);
        })?;
        n += 1;
    }
    // 2. count fields overwritten with out-of-range values
    for (f, name) in &fields {
        if *name == "prev_stored_len" {
            continue; // handled below (semantic check, not a size check)
        }
        for bad in BAD {
            let mut m = orig.clone();
            m[*f..*f + 8].copy_from_slice(&bad.to_le_bytes());
            std::fs::write(&path, &m).map_err(|e| format!("inject: {e}"))?;
            expect_refused(sut, h0, &format!("given {name} = {bad:#x}")).inspect_err(|_| {
                let _ = std::fs::write(&path, &orig);
            })?;
            n += 1;
        }
    }
    // 3. prev_stored_len out of range (beyond anything ever stored)
    for bad in BAD {
        let mut m = orig.clone();
        m[8..16].copy_from_slice(&bad.to_le_bytes());
        std::fs::write(&path, &m).map_err(|e| format!("inject: {e}"))?;
        expect_refused(sut, h0, &format!("given prev_stored_len = {bad:#x}")).inspect_err(|_| {
            let _ = std::fs::write(&path, &orig);
        })?;
        n += 1;
    }
    // 4. record deleted
    std::fs::remove_file(&path).map_err(|e| format!("inject: {e}"))?;
    expect_refused(sut, h0, "deleted").inspect_err(|_| {
        let _ = std::fs::write(&path, &orig);
    })?;
    n += 1;
    std::fs::write(&path, &orig).map_err(|e| format!("restore: {e}"))?;
    obs.count("faults_injected", n);
    obs.label("sweep:newest");
    Ok(true)
}

fn break_older<V: VecKind>(sut: &mut Sut<V>, which: u16, kind: u8, obs: &mut Obs) -> Result<bool, String>
where
    V::T: Elem,
{
    if sut.model.dirty_since_commit {
        return Ok(false);
    }
    // walk the chain of records reachable from the current state
    let mut chain = vec![]; // (stamp, snapshot idx)
    let mut stamp = sut.model.stamp;
    while let Some(&idx) = sut.model.files.get(&stamp) {
        chain.push((stamp, idx));
        let parent = sut.model.snaps[idx].parent.unwrap();
        stamp = sut.model.snaps[parent].stamp;
    }
    if chain.len() < 2 {
        return Ok(false);
    }
    let victim_pos = 1 + crate::common::rank(which, chain.len() - 1);
    let (victim_stamp, _) = chain[victim_pos];
    let path = sut.changes_dir().join(victim_stamp.to_string());
    let orig = std::fs::read(&path).map_err(|e| format!("read victim: {e}"))?;
    match kind % 3 {
        0 => std::fs::remove_file(&path).map_err(|e| format!("inject: {e}"))?,
        1 => std::fs::write(&path, &orig[..orig.len() / 2]).map_err(|e| format!("inject: {e}"))?,
        _ => {
            let mut m = orig.clone();
            if m.len() >= 32 {
                m[24..32].copy_from_slice(&u64::MAX.to_le_bytes());
            } else {
                m.clear();
            }
            std::fs::write(&path, &m).map_err(|e| format!("inject: {e}"))?
        }
    }
    // roll back to before the oldest reachable commit: must stop with an error at the victim
    let target = chain.last().unwrap().0;
    let r = sut.vm().rollback_before(Stamp::new(target));
    let restore = |p: &std::path::Path| std::fs::write(p, &orig).map_err(|e| format!("restore: {e}"));
    match r {
        // a deleted older record is indistinguishable from one trimmed by retention:
        // stopping on the oldest reachable state and returning its stamp is allowed
        Ok(s) if kind % 3 == 0 && u64::from(s) == victim_stamp => {}
        Ok(s) => {
            restore(&path)?;
            return Err(format!(
                "rollback_before({target}) passed through change record {victim_stamp} although it was {} and returned stamp {:?}",
                ["deleted", "truncated", "malformed"][(kind % 3) as usize],
                s
            ));
        }
        Err(_) => {}
    }
    restore(&path)?;
    // the vector must sit exactly on the state whose undo record was unusable
    let (_, stop_idx) = chain[victim_pos];
    let sn = sut.model.snaps[stop_idx].clone();
    sut.model.items = sn.items;
    sut.model.stamp = sn.stamp;
    sut.model.cur = stop_idx;
    sut.model.unflushed = true;
    sut.model.stored = sut.model.stored.min(sut.model.items.len());
    sut.observe().map_err(|e| {
        format!("failed rollback_before left the vector in a state that is not the committed state (stamp {victim_stamp}) it stopped at: {e}")
    })?;
    obs.label("fault:older-record-stops-rollback_before");
    Ok(true)
}

fn run_generic<V: VecKind>(cfg: VecCfg, ops: &[FOp], obs: &mut Obs, limit: usize) -> Result<(), String>
where
    V::T: Elem,
{
    let mut sut = Sut::<V>::new(cfg)?;
    sut.commit_mode = true;
    let tag = format!("[{:?}/{}/k={}]", cfg.fmt, V::T::NAME, cfg.retention);
    let mut commits_in_row = 0u32;
    let mut ok_rollbacks_in_row = 0u32;
    let mut nontrivial = false;
    for (i, fop) in ops.iter().enumerate() {
        match fop {
            FOp::Plain(op) => {
                let refused_before = obs.has("rollback-refused");
                let stamp_before = sut.model.stamp;
                let applied = sut.apply(op, obs).map_err(|e| format!("{tag} op #{i} {op:?}: {e}"))?;
                sut.observe().map_err(|e| format!("{tag} after op #{i} {op:?}: {e}"))?;
                if applied {
                    match op {
                        VOp::Commit { .. } => {
                            commits_in_row += 1;
                            ok_rollbacks_in_row = 0;
                            check_dir(&sut).map_err(|e| format!("{tag} after op #{i} {op:?}: {e}"))?;
                        }
                        VOp::Rollback => {
                            if sut.model.stamp != stamp_before || sut.model.files.contains_key(&stamp_before) {
                                ok_rollbacks_in_row += 1;
                                if ok_rollbacks_in_row as usize > cfg.retention as usize {
                                    return Err(format!("{tag} op #{i}: {ok_rollbacks_in_row} rollbacks in a row succeeded with retention {}", cfg.retention));
                                }
                            } else if !refused_before && obs.has("rollback-refused") || obs.has("rollback-refused") {
                                if commits_in_row as usize > cfg.retention as usize || cfg.retention == 0 {
                                    nontrivial = true;
                                    obs.label("chain-exceeds-retention");
                                }
                            }
                        }
                        _ => {}
                    }
                }
            }
            FOp::SweepNewest => {
                if sweep_newest(&mut sut, obs, limit).map_err(|e| format!("{tag} op #{i} fault sweep: {e}"))? {
                    nontrivial = true;
                }
                sut.observe().map_err(|e| format!("{tag} after fault sweep #{i}: {e}"))?;
            }
            FOp::BreakOlder { which, kind } => {
                if break_older(&mut sut, *which, *kind, obs).map_err(|e| format!("{tag} op #{i} {fop:?}: {e}"))? {
                    nontrivial = true;
                }
            }
        }
    }
    if nontrivial {
        obs.set_nontrivial();
    }
    Ok(())
}

impl Prop for P {
    type Case = Case;
    const ID: &'static str = "C16";
    const ENGINE: &'static str = "E3-vecmodel";
    const LEVEL: &'static str = "fault_enumeration";

    fn cases(tier: Tier) -> u32 {
        tier.pick(36000, 120000)
    }

    fn strategy(tier: Tier) -> BoxedStrategy<Case> {
        let n = tier.pick(24usize, 60);
        (0..MATRIX.len(), prop_oneof![Just(0u16), Just(1), Just(2), Just(3), Just(5), Just(12)])
            .prop_flat_map(move |(ci, retention)| {
                let (fmt, ty) = MATRIX[ci];
                let mix = OpMix { raw_ops: fmt.is_raw(), rollback_ops: true, plain_writes: false, reimport: true, reset: false };
                let fop = prop_oneof![
                    12 => vop_strategy(mix).prop_map(FOp::Plain),
                    1 => Just(FOp::SweepNewest),
                    1 => (any::<u16>(), 0u8..3).prop_map(|(which, kind)| FOp::BreakOlder { which, kind }),
                ];
                prop::collection::vec(fop, 0..=n).prop_map(move |ops| Case { cfg: VecCfg { fmt, ty, retention }, ops })
            })
            .boxed()
    }

    fn run(case: &Case, obs: &mut Obs) -> Result<(), String> {
        let cfg = case.cfg;
        let ops = &case.ops[..];
        let limit = if std::env::var("VERIF_TIER").as_deref() == Ok("thorough") { 70_000usize } else { 1500 };
        dispatch_vec!(cfg, run_generic, (cfg, ops, obs, limit))
    }

    fn rule() -> String {
        "commit/rollback histories with retention k in {0,1,2,3,5,12} (rollback chains longer than k, re-committed stamps) plus fault injection on the change directory: for the newest record a sweep = truncation at EVERY byte offset (records up to 1500 bytes quick / 70000 thorough; larger ones: first/last 128 offsets, +-9..17 around every length field, 97 evenly spaced), every count field overwritten with 2^32, 2^63, u64::MAX, prev_stored_len overwritten with the same values, record deleted - each followed by rollback(), which must fail and leave the vector unchanged; for an older record: deleted / cut in half / malformed count, then rollback_before past it, which must fail exactly on the committed state it stopped at. After every commit the directory must hold exactly the records the model predicts (<= k, none from an abandoned future). Non-trivial: a refused rollback after more than k commits, or a case with at least one injected fault.".into()
    }

    fn mandatory_labels() -> &'static [&'static str] {
        &["sweep:newest", "sweep:exhaustive-truncation", "fault:older-record-stops-rollback_before", "chain-exceeds-retention", "rollback-refused", "rollback-ok"]
    }

    fn assumptions() -> Vec<String> {
        vec!["single-file faults only; the data/regions files are not damaged (C05/C17 cover those)".into()]
    }
}
