//! C10 rawdb: concurrent work on distinct regions is isolated; no foreign bytes read (E6).
use std::collections::BTreeMap;
use std::sync::atomic::{AtomicBool, AtomicUsize, Ordering};
use std::sync::{Arc, Mutex};

use proptest::prelude::*;
use proptest::strategy::BoxedStrategy;
use rawdb::{Database, Region};
use serde::{Deserialize, Serialize};

use crate::common::runner::Prop;
use crate::common::tmp::Scratch;
use crate::common::{Obs, Tier, frac, kf, pat_bytes};
use crate::props::c09::fill_file;
use crate::props::c11::SizeSel;
use crate::rawmodel::check_extents;
use crate::sched;

#[derive(Clone, Debug, Serialize, Deserialize)]
pub enum Op {
    Create { s: u8 },
    Append { s: u8, size: SizeSel },
    WriteAt { s: u8, off: u16, len: u16 },
    Truncate { s: u8, to: u16 },
    TruncateWrite { s: u8, at: u16, len: u16 },
    Rename { s: u8 },
    Remove { s: u8 },
    FlushRegion { s: u8 },
    Flush,
    Compact,
    /// hold a Reader on some region of the database (own or another program's) while the other
    /// programs run `pauses` steps; verify it at every pause
    HoldReader { pick: u16, pauses: u8 },
}

#[derive(Clone, Debug, Serialize, Deserialize)]
pub struct Case {
    pub progs: Vec<Vec<Op>>,
    pub fill_file: bool,
    pub holes_before: bool,
    pub stickiness: u16,
    pub choices: Vec<u16>,
}

struct Hist {
    name: String,
    owner: usize,
    versions: Vec<Arc<Vec<u8>>>,
    removed: bool,
    /// start offset of the extent, refreshed by the owner after each of its operations
    start: usize,
    /// the owner is inside an operation whose result is the last version
    pending: bool,
    /// KF-C12-1: a compaction overlapped a write that extended this region past its last valid page;
    /// its contents are no longer compared (counted as excluded)
    tainted: bool,
    /// compaction counters and length when the owner's current / last operation began
    op_cs0: usize,
    op_cf0: usize,
    op_old_len: usize,
    /// number of hole punches reported by the storage tap when the operation began
    op_punch0: usize,
}

#[derive(Default)]
struct World {
    regions: BTreeMap<u64, Hist>,
}

#[derive(Default)]
struct Shared {
    world: Mutex<World>,
    errors: Mutex<Vec<String>>,
    next_uid: AtomicUsize,
    relocated: AtomicBool,
    file_grew: AtomicBool,
    reader_across_relocation: AtomicBool,
    reader_held_foreign: AtomicBool,
    readers_checked: AtomicUsize,
    excluded_kf: AtomicUsize,
    excluded_kf12: AtomicUsize,
    excluded_kf102: AtomicUsize,
    /// operations completed by all programs / programs that have finished
    ops_done: AtomicUsize,
    finished: AtomicUsize,
    nprogs: AtomicUsize,
    compact_started: AtomicUsize,
    compact_finished: AtomicUsize,
    compact_overlapped_write: AtomicBool,
}

struct Slot {
    uid: u64,
    region: Region,
    name: String,
    bytes: Vec<u8>,
    tainted: bool,
}

fn err(sh: &Shared, m: String) {
    sh.errors.lock().unwrap().push(m);
}

/// Every hole punch of the run (offset, length), in execution order (storage tap H1; the scheduler runs one
/// program at a time, so the order is the execution order).
static PUNCHES: Mutex<Vec<(usize, usize)>> = Mutex::new(Vec::new());

fn punch_tap(e: &rawdb::verif::Event) {
    if let rawdb::verif::Event::Punch { off, len } = *e {
        PUNCHES.lock().unwrap().push((off, len));
    }
}

struct TapGuard;
impl Drop for TapGuard {
    fn drop(&mut self) {
        rawdb::verif::set_tap(None);
    }
}

/// The owner announces the contents its next operation will produce BEFORE calling the library, so
/// that a Reader created by another program in the middle of that operation finds them in the history.
fn begin(sh: &Shared, uid: u64, new_bytes: &[u8]) {
    let (cs, cf) = (sh.compact_started.load(Ordering::SeqCst), sh.compact_finished.load(Ordering::SeqCst));
    let mut w = sh.world.lock().unwrap();
    if let Some(h) = w.regions.get_mut(&uid) {
        h.op_old_len = h.versions.last().map_or(0, |v| v.len());
        h.op_cs0 = cs;
        h.op_cf0 = cf;
        h.op_punch0 = PUNCHES.lock().unwrap().len();
        h.versions.push(Arc::new(new_bytes.to_vec()));
        h.pending = true;
    }
}

/// true when a compaction overlapped the operation that just ended and that operation extended the
/// region beyond its last valid page (the trigger of KF-C12-1)
fn compaction_overlap(h: &Hist, cs_now: usize, new_len: usize) -> bool {
    (cs_now > h.op_cs0 || h.op_cs0 > h.op_cf0) && new_len > h.op_old_len.div_ceil(4096) * 4096
}

fn compaction_hit(h: &Hist, cs_now: usize, new_len: usize, extents: [(usize, usize); 2]) -> bool {
    // ... and, since the punches are observable: one of them fell inside the region's extent (before or after
    // the operation) WHILE the operation ran. A punch after the operation has ended must respect its result.
    let punched = PUNCHES.lock().unwrap()[h.op_punch0..].iter().any(|&(off, len)| extents.iter().any(|&(s, r)| off < s + r && s < off + len));
    (cs_now > h.op_cs0 || h.op_cs0 > h.op_cf0) && new_len > h.op_old_len.div_ceil(4096) * 4096 && punched
}

fn end(sh: &Shared, slot: &mut Slot, ok: bool) {
    let (start, reserved) = {
        let m = slot.region.meta();
        (m.start(), m.reserved())
    };
    let cs_now = sh.compact_started.load(Ordering::SeqCst);
    let mut w = sh.world.lock().unwrap();
    if let Some(h) = w.regions.get_mut(&slot.uid) {
        let old_start = if h.start == usize::MAX { start } else { h.start };
        let extents = [(start, reserved), (old_start, reserved)];
        h.start = start;
        h.name = slot.name.clone();
        h.pending = false;
        if !ok {
            h.versions.pop();
        } else if compaction_hit(h, cs_now, h.versions.last().map_or(0, |v| v.len()), extents) {
            // KF-C12-1 (known finding): compact() punches [ceil(len), reserved) of a region between a
            // concurrent writer's data write and its length update. Excluded: that region is no longer
            // content-checked (decided here, atomically with the end of the operation); counted.
            sh.compact_overlapped_write.store(true, Ordering::Relaxed);
            if kf::active("KF-C12-1") && !h.tainted {
                h.tainted = true;
                slot.tainted = true;
                sh.excluded_kf12.fetch_add(1, Ordering::Relaxed);
            }
        }
    }
}

fn check_own(t: usize, i: usize, slots: &[Option<Slot>], sh: &Shared) {
    for s in slots.iter().flatten() {
        if s.tainted {
            continue;
        }
        let reader = s.region.create_reader();
        let got = reader.read_all();
        if got.len() != s.bytes.len() {
            err(sh, format!("program {t} after its op #{i}: its region '{}' has {} bytes, its own operations produce {}", s.name, got.len(), s.bytes.len()));
        } else if got != &s.bytes[..] {
            let o = got.iter().zip(&s.bytes).position(|(a, b)| a != b).unwrap_or(0);
            err(
                sh,
                format!(
                    "program {t} after its op #{i}: its region '{}' differs at offset {o} of {} from what its own operations produce: got {:#x} want {:#x} (pattern tags: program {} wrote {:#x}-style bytes)",
                    s.name,
                    got.len(),
                    got[o],
                    s.bytes[o],
                    t,
                    s.bytes[o]
                ),
            );
        }
        drop(reader);
    }
}

fn run_prog(t: usize, db: Database, mut slots: Vec<Option<Slot>>, ops: Vec<Op>, sh: Arc<Shared>) {
    let mut wc = 0usize;
    let mut gen_no = 0u32;
    let pat = (t as u8 + 1) * 16;
    for (i, op) in ops.into_iter().enumerate() {
        sched::pause("between-ops");
        let starts0: Vec<(u64, usize)> = slots.iter().flatten().map(|s| (s.uid, s.region.meta().start())).collect();
        let f0 = db.file_len();
        let lens0: Vec<(u64, usize)> = slots.iter().flatten().map(|s| (s.uid, s.bytes.len())).collect();
        let (cs0, cf0) = (sh.compact_started.load(Ordering::SeqCst), sh.compact_finished.load(Ordering::SeqCst));
        let mut data = |n: usize, wc: &mut usize| {
            let d = pat_bytes(pat, *wc, n);
            *wc += n + 11;
            d
        };
        match op {
            Op::Create { s } => {
                let k = s as usize % 3;
                if slots[k].is_none() {
                    gen_no += 1;
                    let name = format!("p{t}s{k}g{gen_no}");
                    match db.create_region_if_needed(&name) {
                        Ok(region) => {
                            let uid = sh.next_uid.fetch_add(1, Ordering::Relaxed) as u64 + 1;
                            sh.world.lock().unwrap().regions.insert(uid, Hist { name: name.clone(), owner: t, versions: vec![Arc::new(vec![])], removed: false, start: usize::MAX, pending: false, tainted: false, op_cs0: 0, op_cf0: 0, op_old_len: 0, op_punch0: 0 });
                            slots[k] = Some(Slot { uid, region, name, bytes: vec![], tainted: false });
                        }
                        Err(e) => err(&sh, format!("program {t} op #{i}: create failed: {e}")),
                    }
                }
            }
            Op::Append { s, size } => {
                if let Some(sl) = slots[s as usize % 3].as_mut() {
                    let (len, res) = {
                        let m = sl.region.meta();
                        (m.len(), m.reserved())
                    };
                    let n = match size {
                        SizeSel::Small => 37,
                        SizeSel::FillReserve => res - len,
                        SizeSel::Overflow => res - len + 1,
                        SizeSel::Big if res <= 128 * 1024 => res * 3 + 5000,
                        SizeSel::Big => 37,
                    };
                    let d = data(n, &mut wc);
                    let mut nb = sl.bytes.clone();
                    nb.extend_from_slice(&d);
                    begin(&sh, sl.uid, &nb);
                    match sl.region.write(&d) {
                        Ok(()) => {
                            sl.bytes = nb;
                            end(&sh, sl, true);
                        }
                        Err(e) => {
                            end(&sh, sl, false);
                            err(&sh, format!("program {t} op #{i}: append of {n} bytes to '{}' failed: {e}", sl.name))
                        }
                    }
                }
            }
            Op::WriteAt { s, off, len } => {
                if let Some(sl) = slots[s as usize % 3].as_mut() {
                    let at = frac(off, sl.bytes.len());
                    let d = data(len as usize % 6000, &mut wc);
                    let mut nb = sl.bytes.clone();
                    let e_ = at + d.len();
                    if nb.len() < e_ {
                        nb.resize(e_, 0);
                    }
                    nb[at..e_].copy_from_slice(&d);
                    begin(&sh, sl.uid, &nb);
                    match sl.region.write_at(&d, at) {
                        Ok(()) => {
                            sl.bytes = nb;
                            end(&sh, sl, true);
                        }
                        Err(e) => {
                            end(&sh, sl, false);
                            err(&sh, format!("program {t} op #{i}: write_at on '{}' failed: {e}", sl.name))
                        }
                    }
                }
            }
            Op::Truncate { s, to } => {
                if let Some(sl) = slots[s as usize % 3].as_mut() {
                    let to = frac(to, sl.bytes.len());
                    let nb = sl.bytes[..to].to_vec();
                    begin(&sh, sl.uid, &nb);
                    match sl.region.truncate(to) {
                        Ok(()) => {
                            sl.bytes = nb;
                            end(&sh, sl, true);
                        }
                        Err(e) => {
                            end(&sh, sl, false);
                            err(&sh, format!("program {t} op #{i}: truncate failed: {e}"))
                        }
                    }
                }
            }
            Op::TruncateWrite { s, at, len } => {
                if let Some(sl) = slots[s as usize % 3].as_mut() {
                    let at = frac(at, sl.bytes.len());
                    let d = data(len as usize % 9000, &mut wc);
                    let mut nb = sl.bytes[..at].to_vec();
                    nb.extend_from_slice(&d);
                    begin(&sh, sl.uid, &nb);
                    match sl.region.truncate_write(at, &d) {
                        Ok(()) => {
                            sl.bytes = nb;
                            end(&sh, sl, true);
                        }
                        Err(e) => {
                            end(&sh, sl, false);
                            err(&sh, format!("program {t} op #{i}: truncate_write failed: {e}"))
                        }
                    }
                }
            }
            Op::Rename { s } => {
                if let Some(sl) = slots[s as usize % 3].as_mut() {
                    gen_no += 1;
                    let new = format!("p{t}renamed{gen_no}");
                    let nb = sl.bytes.clone();
                    begin(&sh, sl.uid, &nb);
                    match sl.region.rename(&new) {
                        Ok(()) => {
                            sl.name = new;
                            end(&sh, sl, true);
                        }
                        Err(e) => {
                            end(&sh, sl, false);
                            err(&sh, format!("program {t} op #{i}: rename failed: {e}"))
                        }
                    }
                }
            }
            Op::Remove { s } => {
                let k = s as usize % 3;
                if let Some(sl) = slots[k].take() {
                    let Slot { uid, region, name, bytes, tainted } = sl;
                    let keep = region.clone();
                    drop(keep);
                    match region.remove() {
                        Ok(()) => {
                            if let Some(h) = sh.world.lock().unwrap().regions.get_mut(&uid) {
                                h.removed = true;
                            }
                        }
                        // a Reader held by another program keeps the region referenced: a documented refusal
                        Err(rawdb::Error::RegionStillReferenced { .. }) => {
                            if let Some(region) = db.get_region(&name) {
                                slots[k] = Some(Slot { uid, region, name, bytes, tainted });
                            }
                        }
                        Err(e) => err(&sh, format!("program {t} op #{i}: remove failed: {e}")),
                    }
                }
            }
            Op::FlushRegion { s } => {
                if let Some(sl) = slots[s as usize % 3].as_ref()
                    && let Err(e) = sl.region.flush()
                    && !matches!(e, rawdb::Error::RegionMetadataUnwritten)
                {
                    err(&sh, format!("program {t} op #{i}: Region::flush failed: {e}"));
                }
            }
            Op::Flush => {
                if let Err(e) = db.flush() {
                    err(&sh, format!("program {t} op #{i}: flush failed: {e}"));
                }
            }
            Op::Compact => {
                sh.compact_started.fetch_add(1, Ordering::SeqCst);
                let r = db.compact();
                sh.compact_finished.fetch_add(1, Ordering::SeqCst);
                if let Err(e) = r {
                    err(&sh, format!("program {t} op #{i}: compact failed: {e}"));
                }
            }
            Op::HoldReader { pick, pauses } => {
                // choose any live region of the database
                let target = {
                    let w = sh.world.lock().unwrap();
                    // number of versions that are certainly in the past: all but the current one, and but
                    // the previous one as well while the owner is inside an operation
                    let live: Vec<(u64, String, usize, usize)> = w
                        .regions
                        .iter()
                        .filter(|(_, h)| !h.removed)
                        .map(|(u, h)| (*u, h.name.clone(), h.owner, h.versions.len().saturating_sub(if h.pending { 2 } else { 1 })))
                        .collect();
                    if live.is_empty() { None } else { Some(live[frac(pick, live.len() - 1)].clone()) }
                };
                if let Some((uid, name, owner, floor)) = target
                    && let Some(region) = db.get_region(&name)
                {
                    // KF-C10-1 (known finding): a Reader on a region that is relocated while the Reader is
                    // held keeps addressing the old extent, which a later flush makes reusable. Excluded:
                    // the byte clause is skipped for exactly those Readers whose region was relocated (or
                    // whose owner is inside an operation that may be relocating it) since their creation.
                    {
                        let start_at_creation = region.meta().start();
                        let (rcs0, rcf0) = (sh.compact_started.load(Ordering::SeqCst), sh.compact_finished.load(Ordering::SeqCst));
                        let reader = region.create_reader();
                        let l = reader.len();
                        if owner != t {
                            sh.reader_held_foreign.store(true, Ordering::Relaxed);
                        }
                        for p in 0..=pauses {
                            if p > 0 {
                                // let the OTHER programs complete one more operation (or finish)
                                let target = sh.ops_done.load(Ordering::Relaxed) + 1;
                                let mut spins = 0;
                                while sh.ops_done.load(Ordering::Relaxed) < target
                                    && sh.finished.load(Ordering::Relaxed) + 1 < sh.nprogs.load(Ordering::Relaxed)
                                    && spins < 150
                                {
                                    sched::pause("reader-held");
                                    spins += 1;
                                }
                            }
                            let got = reader.read_all().to_vec();
                            // (no library call while the Reader is held: the owner publishes versions and extent)
                            let (versions, start_now, pending): (Vec<Arc<Vec<u8>>>, usize, bool) = {
                                let w = sh.world.lock().unwrap();
                                w.regions
                                    .get(&uid)
                                    .map(|h| (h.versions[floor.min(h.versions.len() - 1)..].to_vec(), h.start, h.pending))
                                    .unwrap_or_default()
                            };
                            if start_now != start_at_creation && start_now != usize::MAX {
                                sh.reader_across_relocation.store(true, Ordering::Relaxed);
                            }
                            {
                                let cs_now = sh.compact_started.load(Ordering::SeqCst);
                                let w = sh.world.lock().unwrap();
                                if let Some(h) = w.regions.get(&uid) {
                                    let in_flight_hit = h.pending
                                        && kf::active("KF-C12-1")
                                        && compaction_overlap(h, cs_now, h.versions.last().map_or(0, |v| v.len()));
                                    if h.tainted || in_flight_hit {
                                        break;
                                    }
                                }
                            }
                            // KF-C10-2 (known finding): a Reader does not keep compact() from punching the part
                            // of its region that the owner truncated away after the Reader was created.
                            // Excluded: the byte clause is skipped for a Reader whose region was shorter than
                            // the Reader's snapshot at some point of its lifetime while a compaction ran.
                            let compacted = sh.compact_started.load(Ordering::SeqCst) > rcs0 || rcs0 > rcf0;
                            if compacted && versions.iter().any(|v| v.len() < l) && kf::active("KF-C10-2") {
                                sh.excluded_kf102.fetch_add(1, Ordering::Relaxed);
                                break;
                            }
                            if (pending || start_now != start_at_creation) && owner != t && kf::active("KF-C10-1") {
                                sh.excluded_kf.fetch_add(1, Ordering::Relaxed);
                                break;
                            }
                            sh.readers_checked.fetch_add(1, Ordering::Relaxed);
                            // fast path: identical to one whole version
                            if versions.iter().any(|v| v.len() >= l && v[..l] == got[..l]) {
                                continue;
                            }
                            for (o, b) in got.iter().enumerate().take(l) {
                                if !versions.iter().any(|v| v.get(o) == Some(b)) {
                                    let relocated = start_now != start_at_creation;
                                    err(
                                        &sh,
                                        format!(
                                            "program {t} op #{i}: Reader on region '{name}' (owner: program {owner}), held across {p} steps of the other programs, reads {b:#x} at offset {o} below its snapshot length {l}: the region never held that byte at that offset since the Reader was created (region relocated meanwhile: {relocated})"
                                        ),
                                    );
                                    break;
                                }
                            }
                        }
                        drop(reader);
                    }
                }
            }
        }
        let starts1: Vec<(u64, usize)> = slots.iter().flatten().map(|s| (s.uid, s.region.meta().start())).collect();
        for (u, s1) in &starts1 {
            if starts0.iter().any(|(u0, s0)| u0 == u && s0 != s1) {
                sh.relocated.store(true, Ordering::Relaxed);
            }
        }
        if db.file_len() != f0 {
            sh.file_grew.store(true, Ordering::Relaxed);
        }
        check_own(t, i, &slots, &sh);
        sh.ops_done.fetch_add(1, Ordering::Relaxed);
    }
    sh.finished.fetch_add(1, Ordering::Relaxed);
}

pub fn run_case(case: &Case, obs: &mut Obs) -> Result<(), String> {
    PUNCHES.lock().unwrap().clear();
    rawdb::verif::set_tap(Some(punch_tap));
    let _tap = TapGuard;
    let dir = Scratch::new("c10");
    let db = Database::open(&dir.path().join("db")).map_err(|e| format!("open: {e}"))?;
    let n = case.progs.len();
    let sh = Arc::new(Shared::default());
    sh.nprogs.store(n, Ordering::Relaxed);
    let mut named: Vec<(String, Region)> = vec![];
    let mut all: Vec<Vec<Option<Slot>>> = vec![];
    for t in 0..n {
        let mut slots: Vec<Option<Slot>> = vec![];
        for k in 0..2 {
            let name = format!("p{t}s{k}g0");
            let region = db.create_region_if_needed(&name).map_err(|e| format!("prologue: {e}"))?;
            let bytes = pat_bytes((t as u8 + 1) * 16, 900_000 + k * 5000, 200 + 3500 * k);
            region.write(&bytes).map_err(|e| format!("prologue: {e}"))?;
            let uid = sh.next_uid.fetch_add(1, Ordering::Relaxed) as u64 + 1;
            sh.world.lock().unwrap().regions.insert(uid, Hist { name: name.clone(), owner: t, versions: vec![Arc::new(bytes.clone())], removed: false, start: region.meta().start(), pending: false, tainted: false, op_cs0: 0, op_cf0: 0, op_old_len: 0, op_punch0: 0 });
            named.push((name.clone(), region.clone()));
            slots.push(Some(Slot { uid, region, name, bytes, tainted: false }));
        }
        slots.push(None);
        all.push(slots);
    }
    if case.holes_before {
        for k in 0..3 {
            let r = db.create_region_if_needed(&format!("gap{k}")).map_err(|e| format!("prologue: {e}"))?;
            r.write(&vec![0x7Fu8; 5000 * (k + 1)]).map_err(|e| format!("prologue: {e}"))?;
        }
        for k in [0, 2] {
            let _ = db.remove_region(&format!("gap{k}"));
        }
    }
    db.flush().map_err(|e| format!("prologue flush: {e}"))?;
    if case.fill_file {
        fill_file(&db)?;
    }
    let names = sched::lock_names(&db, &named);
    drop(named);
    let mut progs: Vec<sched::Prog> = vec![];
    for t in 0..n {
        let (db2, slots, ops, sh2) = (db.clone(), std::mem::take(&mut all[t]), case.progs[t].clone(), sh.clone());
        progs.push(Box::new(move || run_prog(t, db2, slots, ops, sh2)));
    }
    let out = sched::run(progs, &case.choices, case.stickiness, names);
    if let Some(m) = &out.inconclusive {
        return Err(format!("INCONCLUSIVE: {m}"));
    }
    obs.count("scheduling_points", out.points as u64);
    obs.count("context_switches", out.switches as u64);
    obs.count("reader_verifications", sh.readers_checked.load(Ordering::Relaxed) as u64);
    let ex102 = sh.excluded_kf102.load(Ordering::Relaxed);
    if ex102 > 0 {
        obs.exclude("KF-C10-2");
        *obs.excluded.get_mut("KF-C10-2").unwrap() += ex102 as u64 - 1;
    }
    let ex12 = sh.excluded_kf12.load(Ordering::Relaxed);
    if ex12 > 0 {
        obs.exclude("KF-C12-1");
        *obs.excluded.get_mut("KF-C12-1").unwrap() += ex12 as u64 - 1;
    }
    if sh.compact_overlapped_write.load(Ordering::Relaxed) {
        obs.label("compact-overlapped-a-write-that-extended-a-region");
    }
    if sh.compact_started.load(Ordering::Relaxed) > 0 {
        obs.label("compact-ran");
    }
    let ex = sh.excluded_kf.load(Ordering::Relaxed);
    for _ in 0..ex.min(1) {
        obs.exclude("KF-C10-1");
    }
    if ex > 1 {
        *obs.excluded.get_mut("KF-C10-1").unwrap() += ex as u64 - 1;
    }
    if out.both_holding > 0 {
        obs.label(">=2-programs-holding-locks-at-once");
    }
    if sh.relocated.load(Ordering::Relaxed) {
        obs.label("region-relocated-during-run");
    }
    if sh.file_grew.load(Ordering::Relaxed) {
        obs.label("file-grew-during-run");
    }
    if sh.reader_held_foreign.load(Ordering::Relaxed) {
        obs.label("reader-on-another-program's-region");
    }
    if sh.reader_across_relocation.load(Ordering::Relaxed) {
        obs.label("reader-held-across-relocation-of-its-region");
    }
    if sh.readers_checked.load(Ordering::Relaxed) > 0 {
        obs.label("reader-held-across-other-programs'-steps");
    }
    if sh.relocated.load(Ordering::Relaxed) && out.both_holding > 0 && out.switches >= 3 {
        obs.set_nontrivial();
    }
    if let Some(d) = &out.deadlock {
        // deadlocks are C11's claim; a run that cannot finish cannot be judged here
        return Err(format!("INCONCLUSIVE: programs deadlocked ({d})"));
    }
    if let Some((p, m)) = out.panics.first() {
        return Err(format!("PANIC in program {p}: {m}"));
    }
    if let Some(e) = sh.errors.lock().unwrap().first() {
        return Err(e.clone());
    }
    // quiescent: extent invariants of C02 and every region equal to its owner's final model
    check_extents(&db).map_err(|e| format!("after the run (quiescent): {e}"))?;
    let w = sh.world.lock().unwrap();
    for h in w.regions.values() {
        if h.removed {
            if db.get_region(&h.name).is_some() {
                return Err(format!("after the run: removed region '{}' is still there", h.name));
            }
            continue;
        }
        let r = db.get_region(&h.name).ok_or_else(|| format!("after the run: region '{}' of program {} is missing", h.name, h.owner))?;
        let want = h.versions.last().unwrap();
        let reader = r.create_reader();
        if !h.tainted && reader.read_all() != &want[..] {
            return Err(format!("after the run: region '{}' of program {} differs from what its owner's operations produce", h.name, h.owner));
        }
    }
    let live: usize = w.regions.values().filter(|h| !h.removed).count();
    let extra = if case.holes_before { 1 } else { 0 };
    let fillers = db.regions().id_to_index().keys().filter(|k| k.starts_with("filler")).count();
    let total = db.regions().len();
    if total != live + extra + fillers {
        return Err(format!("after the run: the database has {total} regions, the programs' models account for {}", live + extra + fillers));
    }
    Ok(())
}

pub fn case_strategy(nops: usize, compact_heavy: bool) -> BoxedStrategy<Case> {
    let compactor = prop::collection::vec(prop_oneof![4 => Just(Op::Compact), 1 => Just(Op::Flush), 1 => (0u8..3, any::<u16>(), any::<u16>()).prop_map(|(s, off, len)| Op::WriteAt { s, off, len })], 1..=nops);
    (
        prop::collection::vec(prop::collection::vec(op_strategy(), 1..=nops), 2..=3),
        compactor,
        prop::bool::weighted(0.4),
        prop::bool::weighted(0.5),
        prop_oneof![Just(0u16), Just(30000u16), Just(55000u16)],
        prop::collection::vec(any::<u16>(), 0..400),
    )
        .prop_map(move |(mut progs, compactor, fill_file, holes_before, stickiness, choices)| {
            if compact_heavy {
                progs[0] = compactor;
            }
            Case { progs, fill_file, holes_before, stickiness, choices }
        })
        .boxed()
}

fn op_strategy() -> BoxedStrategy<Op> {
    let size = prop_oneof![2 => Just(SizeSel::Small), 2 => Just(SizeSel::FillReserve), 5 => Just(SizeSel::Overflow), 2 => Just(SizeSel::Big)];
    prop_oneof![
        2 => (0u8..3).prop_map(|s| Op::Create { s }),
        9 => (0u8..3, size).prop_map(|(s, size)| Op::Append { s, size }),
        2 => (0u8..3, any::<u16>(), any::<u16>()).prop_map(|(s, off, len)| Op::WriteAt { s, off, len }),
        1 => (0u8..3, any::<u16>()).prop_map(|(s, to)| Op::Truncate { s, to }),
        2 => (0u8..3, any::<u16>(), any::<u16>()).prop_map(|(s, at, len)| Op::TruncateWrite { s, at, len }),
        1 => (0u8..3).prop_map(|s| Op::Rename { s }),
        2 => (0u8..3).prop_map(|s| Op::Remove { s }),
        2 => (0u8..3).prop_map(|s| Op::FlushRegion { s }),
        3 => Just(Op::Flush),
        2 => Just(Op::Compact),
        4 => (any::<u16>(), 0u8..6).prop_map(|(pick, pauses)| Op::HoldReader { pick, pauses }),
    ]
    .boxed()
}

pub struct P;

impl Prop for P {
    type Case = Case;
    const ID: &'static str = "C10";
    const ENGINE: &'static str = "E6-sched";

    fn cases(tier: Tier) -> u32 {
        tier.pick(10000, 250000)
    }

    fn strategy(tier: Tier) -> BoxedStrategy<Case> {
        case_strategy(tier.pick(6usize, 12), false)
    }

    fn run(case: &Case, obs: &mut Obs) -> Result<(), String> {
        run_case(case, obs)
    }

    fn rule() -> String {
        "2-3 programs, each owning distinct regions (2 at the start, created/removed/renamed during the run) of one database, run by the deterministic scheduler (scheduling points: every instrumented lock request, yield point and program step; next program from a generated choice vector, uniform or sticky): append (small / exactly filling the reserve / one byte over it / several doublings), positional write, truncate, truncate_write, rename, remove, Region::flush, Database::flush, compact, with holes and a nearly full file in the prologue. Oracles: after EVERY own operation each program reads back all of its regions and compares them with a private byte model (isolation); a Reader held across up to 5 steps of the other programs is re-read at every step and every byte below its snapshot length must be a byte that region held at that offset in some version since the Reader's creation (version history kept by the owner); at the quiescent end the C02 extent invariants hold, every region equals its owner's final model, removed regions are absent and no other region exists. Non-trivial: a relocation happened, >=2 programs held locks at the same scheduling point and >=3 context switches occurred.".into()
    }

    fn mandatory_labels() -> &'static [&'static str] {
        &[
            ">=2-programs-holding-locks-at-once",
            "region-relocated-during-run",
            "file-grew-during-run",
            "reader-held-across-other-programs'-steps",
        ]
    }

    fn assumptions() -> Vec<String> {
        vec![
            "interleavings at lock-request / yield-point granularity, sequential consistency".into(),
            "a program never calls into the library while it holds a Reader (documented misuse); it only lets the other programs run".into(),
        ]
    }

    fn max_shrink_iters(tier: Tier) -> u32 {
        tier.pick(800, 2500)
    }
}
