//! C04 vecdb: rollback restores exactly the previously committed state, repeatedly.
use proptest::prelude::*;
use proptest::strategy::BoxedStrategy;
use serde::{Deserialize, Serialize};

use crate::common::runner::Prop;
use crate::common::{Obs, Tier};
use crate::dispatch_vec;
use crate::vecmodel::{Elem, MATRIX, OpMix, Sut, VOp, VecCfg, VecKind, vop_strategy};

#[derive(Clone, Debug, Serialize, Deserialize)]
pub struct Case {
    pub cfg: VecCfg,
    pub ops: Vec<VOp>,
}

pub struct P;

pub fn run_generic<V: VecKind>(cfg: VecCfg, ops: &[VOp], obs: &mut Obs) -> Result<(), String>
where
    V::T: Elem,
{
    let mut sut = Sut::<V>::new(cfg)?;
    sut.commit_mode = true;
    let mut consecutive_rb = 0u32;
    let mut rb_across_truncating = false;
    let mut pattern = 0u8; // rollback -> edit -> commit -> rollback
    let mut last_commit_truncated = false;
    let mut len_at_last_commit = 0usize;
    let mut min_len_since_commit = 0usize;
    for (i, op) in ops.iter().enumerate() {
        let stamp_before = sut.model.stamp;
        let applied = sut.apply(op, obs).map_err(|e| format!("[{:?}/{}/k={}] op #{i} {op:?}: {e}", cfg.fmt, V::T::NAME, cfg.retention))?;
        sut.observe().map_err(|e| format!("[{:?}/{}/k={}] after op #{i} {op:?}: {e}", cfg.fmt, V::T::NAME, cfg.retention))?;
        min_len_since_commit = min_len_since_commit.min(sut.model.items.len());
        if !applied {
            continue;
        }
        match op {
            VOp::Commit { .. } => {
                last_commit_truncated = min_len_since_commit < len_at_last_commit;
                if last_commit_truncated {
                    obs.label("truncating-commit");
                }
                len_at_last_commit = sut.model.items.len();
                min_len_since_commit = len_at_last_commit;
                consecutive_rb = 0;
                if pattern == 2 {
                    pattern = 3;
                }
            }
            VOp::Rollback | VOp::RollbackBefore { .. } => {
                if sut.model.stamp != stamp_before || matches!(op, VOp::Rollback) && obs.has("rollback-ok") {
                    consecutive_rb += 1;
                    if last_commit_truncated {
                        obs.label("rollback-of-truncating-commit");
                        if consecutive_rb >= 2 {
                            rb_across_truncating = true;
                        }
                    }
                    if pattern == 3 {
                        pattern = 4;
                        obs.label("rollback-edit-commit-rollback");
                    } else if pattern == 0 {
                        pattern = 1;
                    }
                    len_at_last_commit = sut.model.items.len();
                    min_len_since_commit = len_at_last_commit;
                    if consecutive_rb >= 2 {
                        obs.label("consecutive-rollbacks");
                    }
                }
            }
            VOp::Reimport => obs.label("reimport-in-rollback-history"),
            _ => {
                if pattern == 1 {
                    pattern = 2;
                }
            }
        }
    }
    if rb_across_truncating || pattern == 4 {
        obs.set_nontrivial();
    }
    Ok(())
}

impl Prop for P {
    type Case = Case;
    const ID: &'static str = "C04";
    const ENGINE: &'static str = "E3-vecmodel";

    fn cases(tier: Tier) -> u32 {
        tier.pick(24000, 80000)
    }

    fn strategy(tier: Tier) -> BoxedStrategy<Case> {
        let n = tier.pick(30usize, 90);
        (0..MATRIX.len(), prop_oneof![Just(1u16), Just(2), Just(3), Just(5), Just(12)])
            .prop_flat_map(move |(ci, retention)| {
                let (fmt, ty) = MATRIX[ci];
                let mix = OpMix { raw_ops: fmt.is_raw(), rollback_ops: true, plain_writes: false, reimport: true, reset: true };
                prop::collection::vec(vop_strategy(mix), 0..=n)
                    .prop_map(move |ops| Case { cfg: VecCfg { fmt, ty, retention }, ops })
            })
            .boxed()
    }

    fn run(case: &Case, obs: &mut Obs) -> Result<(), String> {
        let cfg = case.cfg;
        let ops = &case.ops[..];
        dispatch_vec!(cfg, run_generic, (cfg, ops, obs))
    }

    fn rule() -> String {
        "commit histories: edits (push/runs/truncate incl. below the stored length and across page boundaries; raw: update/delete/take/fill) -> stamped_write_with_changes with strictly increasing stamps (also commits with no change, re-used stamps after a rollback), plain rollback() / rollback_before(s) to random depth from clean committed states, continuations (edit, commit, flush+re-import, roll back again); retention in {1,2,3,5,12}; no plain write() between commits. Oracle: snapshot tree (contents, deleted slots, stamp) + model of the change-record directory; compared after EVERY op. Non-trivial: >=2 consecutive rollbacks across a truncating commit OR rollback -> edit -> commit -> rollback.".into()
    }

    fn mandatory_labels() -> &'static [&'static str] {
        &["rollback-ok", "rollback-refused", "rollback_before-moved", "consecutive-rollbacks", "rollback-of-truncating-commit", "rollback-edit-commit-rollback", "reimport-in-rollback-history"]
    }
}
