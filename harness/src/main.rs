//! vcheck: property-based checks for anydb (rawdb + vecdb).
#![allow(clippy::type_complexity)]

use anydb_verif::common::runner::main_for;
use anydb_verif::{common, props};

// largest single allocation request while a decoder runs (C17); a relaxed load otherwise
#[global_allocator]
static ALLOC: props::c17::CountingAlloc = props::c17::CountingAlloc;

fn main() {
    let args: Vec<String> = std::env::args().skip(1).collect();
    if args.is_empty() {
        eprintln!("usage: vcheck <ID> [quick|thorough] [--seed N] [--replay file]");
        std::process::exit(2);
    }
    if args[0] == "--child-open" {
        // E8: a foreign process attempting to open a directory (C18)
        std::process::exit(props::c18::child_open(&args[1], &args[2]));
    }
    if args[0] == "--dump-c17-seeds" {
        let n = props::c17::dump_seeds(std::path::Path::new(&args[1])).expect("write seeds");
        println!("{n} seed inputs written");
        return;
    }
    let id = args[0].as_str();
    let rest = &args[1..];
    let code = match id {
        "C01" => main_for::<props::c01::P>(rest),
        "C02" => main_for::<props::c02::P>(rest),
        "C03" => main_for::<props::c03::P>(rest),
        "C04" => main_for::<props::c04::P>(rest),
        "C05" => main_for::<props::c05::P>(rest),
        "C12" => main_for::<props::c12::P>(rest),
        "C15" => main_for::<props::c15::P>(rest),
        "C09" => main_for::<props::c09::P>(rest),
        "C11" => main_for::<props::c11::P>(rest),
        "C10" => main_for::<props::c10::P>(rest),
        "C06" => main_for::<props::c06::P>(rest),
        "C07" => main_for::<props::c07::P>(rest),
        "C08" => main_for::<props::c08::P>(rest),
        "C13" => main_for::<props::c13::P>(rest),
        "C14" => main_for::<props::c14::P>(rest),
        "C16" => main_for::<props::c16::P>(rest),
        "C17" => main_for::<props::c17::P>(rest),
        "C18" => main_for::<props::c18::P>(rest),
        "C19" => main_for::<props::c19::P>(rest),
        "C20" => main_for::<props::c20::P>(rest),
        _ => {
            eprintln!("unknown property {id}");
            2
        }
    };
    common::tmp::cleanup_all();
    std::process::exit(code);
}
