//! Element types for the vector engines: deterministic seed -> value mapping
//! (with extreme values / all float bit classes) and bit-exact comparison.

use vecdb::Bytes;

use crate::common::splitmix64;

pub trait Elem: vecdb::VecValue + Bytes + Copy + PartialEq + 'static {
    const NAME: &'static str;
    const SIZE: usize = std::mem::size_of::<Self>();
    fn from_seed(s: u64) -> Self;
    /// every byte pseudo-random (incompressible runs: a compressed page then exceeds its uncompressed size)
    fn entropy(s: u64) -> Self {
        let mut buf = [0u8; 64];
        let mut x = s;
        for chunk in buf.chunks_mut(8) {
            x = splitmix64(x);
            chunk.copy_from_slice(&x.to_le_bytes());
        }
        Self::from_bytes(&buf[..Self::SIZE]).unwrap_or_else(|_| Self::from_seed(s))
    }
    /// bit-exact identity (NaN payloads, -0.0 distinguished)
    fn bits(&self) -> Vec<u8> {
        self.to_bytes().as_ref().to_vec()
    }
    fn same(&self, o: &Self) -> bool {
        self.to_bytes().as_ref() == o.to_bytes().as_ref()
    }
    fn show(&self) -> String {
        format!("{self:?}")
    }
    /// min/max/sum paths (numeric types only)
    fn check_aggs<R: vecdb::ReadableVec<usize, Self>>(_r: &R, _what: &str, _from: usize, _to: usize, _want: &[Self]) -> Result<(), String> {
        Ok(())
    }
}

macro_rules! aggs_impl {
    ($t:ty, $add:expr) => {
        fn check_aggs<R: vecdb::ReadableVec<usize, Self>>(r: &R, what: &str, from: usize, to: usize, want: &[Self]) -> Result<(), String> {
            let min = want.iter().copied().fold(None, |acc: Option<$t>, v| match acc {
                Some(cur) if cur <= v => Some(cur),
                _ => Some(v),
            });
            let max = want.iter().copied().fold(None, |acc: Option<$t>, v| match acc {
                Some(cur) if cur >= v => Some(cur),
                _ => Some(v),
            });
            let add: fn($t, $t) -> $t = $add;
            let sum = if want.is_empty() { None } else { Some(want.iter().copied().fold(<$t>::from(0u8), add)) };
            // NaN payload/sign of a floating sum is not specified: any NaN equals any NaN
            #[allow(clippy::eq_op)]
            let eq = |a: Option<$t>, b: Option<$t>| match (a, b) {
                (None, None) => true,
                (Some(x), Some(y)) => x.same(&y) || (x != x && y != y),
                _ => false,
            };
            for (name, got, want) in [
                ("min_at", r.min_at(from, to), min),
                ("min", r.min(from, to), min),
                ("min_dyn", r.min_dyn(from, to), min),
                ("max_at", r.max_at(from, to), max),
                ("max", r.max(from, to), max),
                ("max_dyn", r.max_dyn(from, to), max),
                ("sum_at", r.sum_at(from, to), sum),
                ("sum", r.sum(from, to), sum),
                ("sum_dyn", r.sum_dyn(from, to), sum),
            ] {
                if !eq(got, want) {
                    return crate::vecmodel::reads::fail(format!("{what}: {name}({from}, {to}) = {got:?}, reference fold gives {want:?}"));
                }
            }
            Ok(())
        }
    };
}

macro_rules! int_elem {
    ($($t:ty),*) => {$(
        impl Elem for $t {
            const NAME: &'static str = stringify!($t);
            fn from_seed(s: u64) -> Self {
                let h = splitmix64(s);
                match h & 15 {
                    0 => 0,
                    1 => <$t>::MAX,
                    2 => <$t>::MIN,
                    3 => 1,
                    4 => <$t>::MAX - 1,
                    5 => <$t>::MIN.wrapping_add(1),
                    6 | 7 => ((h >> 8) & 0xff) as $t,
                    _ => {
                        let a = splitmix64(h) as u128;
                        let b = splitmix64(h ^ 0x55) as u128;
                        ((a << 64) | b) as $t
                    }
                }
            }
            aggs_impl!($t, |a, b| a.wrapping_add(b));
        }
    )*};
}
int_elem!(u8, u16, u32, u64, u128, i16, i32, i64);

impl Elem for f32 {
    const NAME: &'static str = "f32";
    fn from_seed(s: u64) -> Self {
        let h = splitmix64(s);
        let bits: u32 = match h & 15 {
            0 => 0,
            1 => 0x8000_0000,                                  // -0.0
            2 => 0x7f80_0000,                                  // +inf
            3 => 0xff80_0000,                                  // -inf
            4 => 0x7fc0_0000 | ((h >> 8) as u32 & 0x3f_ffff), // quiet NaN payload
            5 => 0x7f80_0001 | ((h >> 8) as u32 & 0x3f_fffe), // signalling NaN payload
            6 => ((h >> 8) as u32 & 0x007f_ffff) | 1,         // subnormal
            7 => 0x7f7f_ffff,                                  // MAX
            8 => 0x0080_0000,                                  // MIN_POSITIVE
            9 => return ((h >> 8) % 1000) as f32 * 0.5,
            _ => (h >> 16) as u32,
        };
        f32::from_bits(bits)
    }
    fn show(&self) -> String {
        format!("{self:?}[{:#x}]", self.to_bits())
    }
    aggs_impl!(f32, |a, b| a + b);
}

impl Elem for f64 {
    const NAME: &'static str = "f64";
    fn from_seed(s: u64) -> Self {
        let h = splitmix64(s);
        let r = splitmix64(h);
        let bits: u64 = match h & 15 {
            0 => 0,
            1 => 0x8000_0000_0000_0000,
            2 => 0x7ff0_0000_0000_0000,
            3 => 0xfff0_0000_0000_0000,
            4 => 0x7ff8_0000_0000_0000 | (r & 0x7_ffff_ffff_ffff),
            5 => 0xfff0_0000_0000_0001 | (r & 0x7_ffff_ffff_fffe),
            6 => (r & 0x000f_ffff_ffff_ffff) | 1,
            7 => 0x7fef_ffff_ffff_ffff,
            8 => 0x0010_0000_0000_0000,
            9 => return ((h >> 8) % 1000) as f64 * 0.25,
            _ => r,
        };
        f64::from_bits(bits)
    }
    fn show(&self) -> String {
        format!("{self:?}[{:#x}]", self.to_bits())
    }
    aggs_impl!(f64, |a, b| a + b);
}

macro_rules! arr_elem {
    ($($n:expr),*) => {$(
        impl Elem for [u8; $n] {
            const NAME: &'static str = concat!("[u8;", stringify!($n), "]");
            fn from_seed(s: u64) -> Self {
                let mut out = [0u8; $n];
                let h = splitmix64(s);
                match h & 7 {
                    0 => {}
                    1 => out = [0xff; $n],
                    _ => {
                        let mut x = h;
                        for chunk in out.chunks_mut(8) {
                            x = splitmix64(x);
                            let b = x.to_le_bytes();
                            chunk.copy_from_slice(&b[..chunk.len()]);
                        }
                    }
                }
                out
            }
        }
    )*};
}
arr_elem!(16, 32, 3, 12);

/// derived wrappers (the "derived wrappers" of C03/C17)
#[derive(Debug, Clone, Copy, PartialEq, vecdb::Pco)]
pub struct WrapU64(pub u64);

impl Elem for WrapU64 {
    const NAME: &'static str = "WrapU64";
    fn from_seed(s: u64) -> Self {
        WrapU64(u64::from_seed(s))
    }
}

#[derive(Debug, Clone, Copy, PartialEq, vecdb::Bytes)]
pub struct WrapU32B(pub u32);

impl Elem for WrapU32B {
    const NAME: &'static str = "WrapU32B";
    fn from_seed(s: u64) -> Self {
        WrapU32B(u32::from_seed(s))
    }
}
