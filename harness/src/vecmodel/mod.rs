//! E3: vec op language, reference model (Vec<Option<T>> + stamp + commit snapshots),
//! generic interpreter over the format x element-type matrix.

pub mod elem;
pub mod reads;

use std::collections::{BTreeMap, BTreeSet};

use proptest::prelude::*;
use rawdb::Database;
use serde::{Deserialize, Serialize};
use vecdb::{
    AnyStoredVec, AnyVec, BytesVec, EagerVec, ImportOptions, ImportableVec, LZ4Vec, PcoVec,
    ReadableVec, Stamp, StoredVec, Version, WritableVec, ZeroCopyVec, ZstdVec,
};

use crate::common::tmp::Scratch;
use crate::common::{Obs, frac, kf, splitmix64};
pub use elem::Elem;

// ------------------------------------------------------------------ config

#[derive(Clone, Copy, Debug, Serialize, Deserialize, PartialEq, Eq, PartialOrd, Ord)]
pub enum Fmt {
    Bytes,
    ZeroCopy,
    Pco,
    Lz4,
    Zstd,
    EagerBytes,
    EagerPco,
}

impl Fmt {
    pub fn is_raw(self) -> bool {
        matches!(self, Fmt::Bytes | Fmt::ZeroCopy)
    }
    pub fn is_compressed(self) -> bool {
        matches!(self, Fmt::Pco | Fmt::Lz4 | Fmt::Zstd | Fmt::EagerPco)
    }
}

#[derive(Clone, Copy, Debug, Serialize, Deserialize, PartialEq, Eq, PartialOrd, Ord)]
pub enum Ty {
    U16,
    U32,
    U64,
    I64,
    U128,
    F32,
    F64,
    A16,
    A32,
    WrapU64,
    WrapU32B,
}

#[derive(Clone, Copy, Debug, Serialize, Deserialize, PartialEq, Eq)]
pub struct VecCfg {
    pub fmt: Fmt,
    pub ty: Ty,
    /// saved_stamped_changes
    pub retention: u16,
}

/// every (format, type) pair the dispatch macro instantiates
pub const MATRIX: &[(Fmt, Ty)] = &[
    (Fmt::Bytes, Ty::U16),
    (Fmt::Bytes, Ty::U32),
    (Fmt::Bytes, Ty::U64),
    (Fmt::Bytes, Ty::I64),
    (Fmt::Bytes, Ty::U128),
    (Fmt::Bytes, Ty::F32),
    (Fmt::Bytes, Ty::F64),
    (Fmt::Bytes, Ty::A16),
    (Fmt::Bytes, Ty::A32),
    (Fmt::Bytes, Ty::WrapU32B),
    (Fmt::ZeroCopy, Ty::U16),
    (Fmt::ZeroCopy, Ty::U32),
    (Fmt::ZeroCopy, Ty::U64),
    (Fmt::ZeroCopy, Ty::I64),
    (Fmt::ZeroCopy, Ty::F64),
    (Fmt::ZeroCopy, Ty::A32),
    (Fmt::Pco, Ty::U16),
    (Fmt::Pco, Ty::U32),
    (Fmt::Pco, Ty::U64),
    (Fmt::Pco, Ty::I64),
    (Fmt::Pco, Ty::F32),
    (Fmt::Pco, Ty::F64),
    (Fmt::Pco, Ty::WrapU64),
    (Fmt::Lz4, Ty::U32),
    (Fmt::Lz4, Ty::U64),
    (Fmt::Lz4, Ty::U128),
    (Fmt::Lz4, Ty::F64),
    (Fmt::Lz4, Ty::A32),
    (Fmt::Zstd, Ty::U32),
    (Fmt::Zstd, Ty::U64),
    (Fmt::Zstd, Ty::U128),
    (Fmt::Zstd, Ty::F64),
    (Fmt::Zstd, Ty::A32),
    (Fmt::EagerBytes, Ty::U32),
    (Fmt::EagerPco, Ty::U64),
];

pub fn ty_size(ty: Ty) -> usize {
    match ty {
        Ty::U16 => 2,
        Ty::U32 | Ty::F32 | Ty::WrapU32B => 4,
        Ty::U64 | Ty::I64 | Ty::F64 | Ty::WrapU64 => 8,
        Ty::U128 | Ty::A16 => 16,
        Ty::A32 => 32,
    }
}

/// compressed page capacity in elements (16 KiB / size)
pub fn per_page(ty: Ty) -> usize {
    16 * 1024 / ty_size(ty)
}

// ------------------------------------------------------------------ ops

#[derive(Clone, Copy, Debug, Serialize, Deserialize, PartialEq, Eq)]
pub enum RunLen {
    Small(u8),
    /// k elements short of / past the next page boundary (relative to current len)
    ToBoundary(i8),
    /// exactly one page
    Page(i8),
    Pages2AndHalf,
}

#[derive(Clone, Copy, Debug, Serialize, Deserialize, PartialEq, Eq)]
pub enum IdxSel {
    First,
    Last,
    Frac(u16),
    /// page boundary number k (from the end, clamped) plus delta
    Boundary(u8, i8),
    /// relative to the stored/pushed boundary
    StoredEdge(i8),
}

#[derive(Clone, Debug, Serialize, Deserialize, PartialEq, Eq)]
pub enum VOp {
    Push { seed: u32 },
    PushRun { n: RunLen, pat: u16 },
    Truncate { to: IdxSel },
    Write,
    Flush,
    StampedWrite { stamp: u8 },
    Reset,
    Reimport,
    // raw only
    Update { i: IdxSel, seed: u32 },
    Delete { i: IdxSel },
    Take { i: IdxSel },
    FillHole { seed: u32 },
    // rollback family
    Commit { bump: u8 },
    Rollback,
    RollbackBefore { back: u8 },
}

pub fn run_len() -> impl Strategy<Value = RunLen> {
    prop_oneof![
        6 => (0u8..=40).prop_map(RunLen::Small),
        4 => (-2i8..=2).prop_map(RunLen::ToBoundary),
        2 => (-1i8..=1).prop_map(RunLen::Page),
        1 => Just(RunLen::Pages2AndHalf),
    ]
}

pub fn idx_sel() -> impl Strategy<Value = IdxSel> {
    prop_oneof![
        1 => Just(IdxSel::First),
        2 => Just(IdxSel::Last),
        4 => any::<u16>().prop_map(IdxSel::Frac),
        3 => (0u8..4, -2i8..=2).prop_map(|(k, d)| IdxSel::Boundary(k, d)),
        3 => (-3i8..=3).prop_map(IdxSel::StoredEdge),
    ]
}

#[derive(Clone, Copy, Debug, Default)]
pub struct OpMix {
    pub raw_ops: bool,
    pub rollback_ops: bool,
    pub plain_writes: bool,
    pub reimport: bool,
    pub reset: bool,
}

pub fn vop_strategy(mix: OpMix) -> BoxedStrategy<VOp> {
    let mut v: Vec<(u32, BoxedStrategy<VOp>)> = vec![
        (6, any::<u32>().prop_map(|seed| VOp::Push { seed }).boxed()),
        (8, (run_len(), any::<u16>()).prop_map(|(n, pat)| VOp::PushRun { n, pat }).boxed()),
        (5, idx_sel().prop_map(|to| VOp::Truncate { to }).boxed()),
    ];
    if mix.plain_writes {
        v.push((6, Just(VOp::Write).boxed()));
        v.push((3, Just(VOp::Flush).boxed()));
        v.push((2, (1u8..20).prop_map(|stamp| VOp::StampedWrite { stamp }).boxed()));
    }
    if mix.reset {
        v.push((1, Just(VOp::Reset).boxed()));
    }
    if mix.reimport {
        v.push((3, Just(VOp::Reimport).boxed()));
    }
    if mix.raw_ops {
        v.push((4, (idx_sel(), any::<u32>()).prop_map(|(i, seed)| VOp::Update { i, seed }).boxed()));
        v.push((4, idx_sel().prop_map(|i| VOp::Delete { i }).boxed()));
        v.push((2, idx_sel().prop_map(|i| VOp::Take { i }).boxed()));
        v.push((3, any::<u32>().prop_map(|seed| VOp::FillHole { seed }).boxed()));
    }
    if mix.rollback_ops {
        v.push((8, (1u8..=3).prop_map(|bump| VOp::Commit { bump }).boxed()));
        v.push((5, Just(VOp::Rollback).boxed()));
        v.push((3, (0u8..5).prop_map(|back| VOp::RollbackBefore { back }).boxed()));
    }
    proptest::strategy::Union::new_weighted(v).boxed()
}

pub fn cfg_strategy(filter: fn(Fmt, Ty) -> bool, retentions: &'static [u16]) -> BoxedStrategy<VecCfg> {
    let pairs: Vec<(Fmt, Ty)> = MATRIX.iter().copied().filter(|&(f, t)| filter(f, t)).collect();
    (0..pairs.len(), 0..retentions.len())
        .prop_map(move |(i, r)| VecCfg { fmt: pairs[i].0, ty: pairs[i].1, retention: retentions[r] })
        .boxed()
}

// ------------------------------------------------------------------ model

#[derive(Clone, Debug)]
pub struct Snap<T> {
    pub items: Vec<Option<T>>,
    pub stamp: u64,
    pub parent: Option<usize>,
}

#[derive(Clone, Debug)]
pub struct VModel<T> {
    pub items: Vec<Option<T>>,
    pub stamp: u64,
    /// number of leading elements that have been written (what read-only clones see)
    pub stored: usize,
    pub snaps: Vec<Snap<T>>,
    pub cur: usize,
    /// change files: stamp -> snapshot index whose undo record it is
    pub files: BTreeMap<u64, usize>,
    pub dirty_since_commit: bool,
    /// logical state differs from what a re-import would give
    pub unflushed: bool,
    /// stored prefix on disk may differ from the logical contents (pending updates / rollback overlay)
    pub stored_dirty: bool,
}

impl<T: Elem> VModel<T> {
    pub fn new() -> Self {
        Self {
            items: vec![],
            stamp: 0,
            stored: 0,
            snaps: vec![Snap { items: vec![], stamp: 0, parent: None }],
            cur: 0,
            files: BTreeMap::new(),
            dirty_since_commit: false,
            unflushed: false,
            stored_dirty: false,
        }
    }
    pub fn holes(&self) -> BTreeSet<usize> {
        self.items.iter().enumerate().filter(|(_, v)| v.is_none()).map(|(i, _)| i).collect()
    }
    pub fn dense(&self) -> Vec<T> {
        self.items.iter().filter_map(|v| *v).collect()
    }
    pub fn has_holes(&self) -> bool {
        self.items.iter().any(|v| v.is_none())
    }
}

pub fn same_opt<T: Elem>(a: &Option<T>, b: &Option<T>) -> bool {
    match (a, b) {
        (None, None) => true,
        (Some(x), Some(y)) => x.same(y),
        _ => false,
    }
}

pub fn first_diff<T: Elem>(got: &[Option<T>], want: &[Option<T>]) -> Option<String> {
    if got.len() != want.len() {
        return Some(format!("length {} != model {}", got.len(), want.len()));
    }
    for (i, (g, w)) in got.iter().zip(want).enumerate() {
        if !same_opt(g, w) {
            return Some(format!(
                "index {i}: got {} want {}",
                g.map(|v| v.show()).unwrap_or("<deleted>".into()),
                w.map(|v| v.show()).unwrap_or("<deleted>".into())
            ));
        }
    }
    None
}

pub fn first_diff_dense<T: Elem>(got: &[T], want: &[T]) -> Option<String> {
    if got.len() != want.len() {
        return Some(format!("{} elements != expected {}", got.len(), want.len()));
    }
    for (i, (g, w)) in got.iter().zip(want).enumerate() {
        if !g.same(w) {
            return Some(format!("position {i}: got {} want {}", g.show(), w.show()));
        }
    }
    None
}

// ------------------------------------------------------------------ vec kinds

/// raw-format-only API, object safe
pub trait RawApi<T> {
    fn r_update_at(&mut self, i: usize, v: T) -> vecdb::Result<()>;
    fn r_delete_at(&mut self, i: usize);
    fn r_take_at(&mut self, i: usize) -> vecdb::Result<Option<T>>;
    fn r_fill_first_hole_or_push(&mut self, v: T) -> vecdb::Result<usize>;
    fn r_holes(&self) -> BTreeSet<usize>;
    fn r_collect_holed(&self) -> vecdb::Result<Vec<Option<T>>>;
    fn r_get_any_or_read_at(&self, i: usize) -> vecdb::Result<Option<T>>;
    fn r_reader_try_get(&self, i: usize) -> Option<T>;
    fn r_reader_len(&self) -> usize;
    fn r_read_at_once(&self, i: usize) -> vecdb::Result<T>;
    fn r_fold_stored_io(&self, from: usize, to: usize) -> Vec<T>;
    fn r_fold_stored_mmap(&self, from: usize, to: usize) -> Vec<T>;
}

impl<T: vecdb::VecValue, S: vecdb::RawStrategy<T>> RawApi<T> for vecdb::ReadWriteRawVec<usize, T, S> {
    fn r_update_at(&mut self, i: usize, v: T) -> vecdb::Result<()> {
        self.update_at(i, v)
    }
    fn r_delete_at(&mut self, i: usize) {
        self.delete_at(i)
    }
    fn r_take_at(&mut self, i: usize) -> vecdb::Result<Option<T>> {
        let reader = self.create_reader();
        self.take_at(i, &reader)
    }
    fn r_fill_first_hole_or_push(&mut self, v: T) -> vecdb::Result<usize> {
        self.fill_first_hole_or_push(v)
    }
    fn r_holes(&self) -> BTreeSet<usize> {
        self.holes().clone()
    }
    fn r_collect_holed(&self) -> vecdb::Result<Vec<Option<T>>> {
        self.collect_holed()
    }
    fn r_get_any_or_read_at(&self, i: usize) -> vecdb::Result<Option<T>> {
        let reader = self.create_reader();
        self.get_any_or_read_at(i, &reader)
    }
    fn r_reader_try_get(&self, i: usize) -> Option<T> {
        self.reader().try_get(i)
    }
    fn r_reader_len(&self) -> usize {
        self.reader().len()
    }
    fn r_read_at_once(&self, i: usize) -> vecdb::Result<T> {
        self.read_at_once(i)
    }
    fn r_fold_stored_io(&self, from: usize, to: usize) -> Vec<T> {
        self.fold_stored_io(from, to, vec![], |mut a, v| {
            a.push(v);
            a
        })
    }
    fn r_fold_stored_mmap(&self, from: usize, to: usize) -> Vec<T> {
        self.fold_stored_mmap(from, to, vec![], |mut a, v| {
            a.push(v);
            a
        })
    }
}

pub trait VecKind: StoredVec<I = usize> + Sized
where
    Self::T: Elem,
{
    const FMT: Fmt;
    fn raw(&self) -> Option<&dyn RawApi<Self::T>> {
        None
    }
    fn raw_mut(&mut self) -> Option<&mut dyn RawApi<Self::T>> {
        None
    }
    /// stored-only scans of compressed vectors (both back-ends)
    fn comp_fold_stored(&self, _io: bool, _from: usize, _to: usize) -> Option<Vec<Self::T>> {
        None
    }
}

impl<T: Elem> VecKind for BytesVec<usize, T> {
    const FMT: Fmt = Fmt::Bytes;
    fn raw(&self) -> Option<&dyn RawApi<T>> {
        Some(&**self)
    }
    fn raw_mut(&mut self) -> Option<&mut dyn RawApi<T>> {
        Some(&mut **self)
    }
}

impl<T: Elem + vecdb::ZeroCopyVecValue> VecKind for ZeroCopyVec<usize, T> {
    const FMT: Fmt = Fmt::ZeroCopy;
    fn raw(&self) -> Option<&dyn RawApi<T>> {
        Some(&**self)
    }
    fn raw_mut(&mut self) -> Option<&mut dyn RawApi<T>> {
        Some(&mut **self)
    }
}

macro_rules! comp_kind {
    ($v:ident, $bound:path, $fmt:expr) => {
        impl<T: Elem + $bound> VecKind for $v<usize, T> {
            const FMT: Fmt = $fmt;
            fn comp_fold_stored(&self, io: bool, from: usize, to: usize) -> Option<Vec<T>> {
                let f = |mut a: Vec<T>, v: T| {
                    a.push(v);
                    a
                };
                Some(if io { self.fold_stored_io(from, to, vec![], f) } else { self.fold_stored_mmap(from, to, vec![], f) })
            }
        }
    };
}
comp_kind!(PcoVec, vecdb::PcoVecValue, Fmt::Pco);
comp_kind!(LZ4Vec, vecdb::LZ4VecValue, Fmt::Lz4);
comp_kind!(ZstdVec, vecdb::ZstdVecValue, Fmt::Zstd);

impl VecKind for EagerVec<BytesVec<usize, u32>> {
    const FMT: Fmt = Fmt::EagerBytes;
}
impl VecKind for EagerVec<PcoVec<usize, u64>> {
    const FMT: Fmt = Fmt::EagerPco;
}

// ------------------------------------------------------------------ SUT

pub struct Sut<V: VecKind>
where
    V::T: Elem,
{
    pub dir: Scratch,
    pub db: Database,
    pub vec: Option<V>,
    pub name: String,
    pub version: Version,
    pub cfg: VecCfg,
    pub model: VModel<V::T>,
    pub seq: u64,
    // history statistics
    /// rollback histories: no plain write between commits => re-import only from clean states
    pub commit_mode: bool,
    pub wrote_after_divergence: bool,
    pub reimport_with_holes: bool,
    pub regimes: BTreeSet<&'static str>,
}

pub fn open_db(dir: &Scratch) -> Result<Database, String> {
    Database::open(&dir.path().join("db")).map_err(|e| format!("Database::open: {e}"))
}

impl<V: VecKind> Sut<V>
where
    V::T: Elem,
{
    pub fn new(cfg: VecCfg) -> Result<Self, String> {
        let dir = Scratch::new("vec");
        let db = open_db(&dir)?;
        let name = "v".to_string();
        let version = Version::new(7);
        let vec = Self::import(&db, &name, version, cfg.retention, false)?;
        Ok(Self {
            dir,
            db,
            vec: Some(vec),
            name,
            version,
            cfg,
            model: VModel::new(),
            seq: 1,
            commit_mode: false,
            wrote_after_divergence: false,
            reimport_with_holes: false,
            regimes: BTreeSet::new(),
        })
    }

    pub fn import(db: &Database, name: &str, version: Version, retention: u16, forced: bool) -> Result<V, String> {
        let opts = ImportOptions::new(db, name, version).with_saved_stamped_changes(retention);
        let r = if forced { V::forced_import_with(opts) } else { V::import_with(opts) };
        r.map_err(|e| format!("import failed: {e}"))
    }

    pub fn v(&self) -> &V {
        self.vec.as_ref().unwrap()
    }
    pub fn vm(&mut self) -> &mut V {
        self.vec.as_mut().unwrap()
    }

    pub fn next_val(&mut self, seed: u64) -> V::T {
        self.seq += 1;
        V::T::from_seed(splitmix64(seed ^ (self.seq << 20)))
    }

    pub fn per_page(&self) -> usize {
        per_page(self.cfg.ty)
    }

    pub fn resolve_run(&self, n: RunLen) -> usize {
        let pp = self.per_page();
        let len = self.model.items.len();
        match n {
            RunLen::Small(k) => k as usize,
            RunLen::ToBoundary(d) => {
                let to_b = pp - (len % pp);
                (to_b as i64 + d as i64).max(0) as usize
            }
            RunLen::Page(d) => (pp as i64 + d as i64) as usize,
            RunLen::Pages2AndHalf => pp * 5 / 2,
        }
    }

    /// maps a selector onto 0..=len (inclusive) for truncation points
    pub fn resolve_incl(&self, s: IdxSel) -> usize {
        let len = self.model.items.len();
        let pp = self.per_page();
        let v = match s {
            IdxSel::First => 0,
            IdxSel::Last => len,
            IdxSel::Frac(f) => frac(f, len),
            IdxSel::Boundary(k, d) => {
                let pages = len / pp;
                let b = pages.saturating_sub(k as usize) * pp;
                (b as i64 + d as i64).max(0) as usize
            }
            IdxSel::StoredEdge(d) => (self.model.stored as i64 + d as i64).max(0) as usize,
        };
        v.min(len)
    }

    /// maps a selector onto 0..len (None when empty)
    pub fn resolve_idx(&self, s: IdxSel) -> Option<usize> {
        let len = self.model.items.len();
        if len == 0 {
            return None;
        }
        Some(self.resolve_incl(s).min(len - 1))
    }

    fn note_write(&mut self, obs: &mut Obs) {
        // classify the compressed write regime before it happens
        if self.cfg.fmt.is_compressed() {
            let v = self.v();
            let stored = v.stored_len();
            let real = v.real_stored_len();
            let pushed = v.pushed_len();
            let pp = self.per_page();
            let regime = if pushed == 0 && stored == real {
                "noop"
            } else if stored % pp != 0 && stored == real && (stored % pp) + pushed < pp {
                "fast-raw-append"
            } else if stored % pp != 0 {
                "partial-page-reencode"
            } else {
                "fresh-pages"
            };
            if regime != "noop" {
                self.regimes.insert(regime);
            }
            match regime {
                "fast-raw-append" => obs.label("regime:fast-raw-append"),
                "partial-page-reencode" => obs.label("regime:partial-page-reencode"),
                "fresh-pages" => obs.label("regime:fresh-pages"),
                _ => {}
            }
            if stored < real {
                obs.label("write-after-truncate-below-stored");
            }
            if stored % pp != 0 && (stored % pp) + pushed >= pp {
                obs.label("raw-page-overflows");
            }
        }
        let v = self.v();
        if v.stored_len() != v.real_stored_len() {
            self.wrote_after_divergence = true;
            obs.label("write-with-stored_len!=on-disk");
        }
    }

    fn after_write(&mut self) {
        self.model.stored = self.model.items.len();
        self.model.stored_dirty = false;
    }

    /// applies one op to the vector and the model. Ok(false) = op skipped (not applicable).
    pub fn apply(&mut self, op: &VOp, obs: &mut Obs) -> Result<bool, String> {
        let is_raw = self.v().raw().is_some();
        match op {
            VOp::Push { seed } => {
                let val = self.next_val(*seed as u64);
                self.vm().push(val);
                self.model.items.push(Some(val));
                self.touch();
            }
            VOp::PushRun { n, pat } => {
                let n = self.resolve_run(*n);
                for k in 0..n {
                    let val = self.next_val(((*pat as u64) << 32) | k as u64);
                    self.vm().push(val);
                    self.model.items.push(Some(val));
                }
                if n > 0 {
                    self.touch();
                }
            }
            VOp::Truncate { to } => {
                let to = self.resolve_incl(*to);
                self.vm().truncate_if_needed_at(to).map_err(|e| format!("truncate_if_needed_at({to}): {e}"))?;
                if to < self.model.items.len() {
                    self.model.items.truncate(to);
                    if to < self.model.stored {
                        obs.label("truncate-below-stored");
                    }
                    self.model.stored = self.model.stored.min(to);
                    self.touch();
                }
            }
            VOp::Write => {
                self.note_write(obs);
                self.vm().write().map_err(|e| format!("write(): {e}"))?;
                self.after_write();
            }
            VOp::Flush => {
                self.note_write(obs);
                self.vm().flush().map_err(|e| format!("flush(): {e}"))?;
                self.after_write();
                self.db.flush().map_err(|e| format!("db.flush(): {e}"))?;
                self.model.unflushed = false;
            }
            VOp::StampedWrite { stamp } => {
                self.note_write(obs);
                self.vm()
                    .stamped_write(Stamp::new(*stamp as u64))
                    .map_err(|e| format!("stamped_write({stamp}): {e}"))?;
                self.model.stamp = *stamp as u64;
                self.after_write();
                self.model.unflushed = true;
            }
            VOp::Reset => {
                self.vm().reset().map_err(|e| format!("reset(): {e}"))?;
                self.model.items.clear();
                self.model.stamp = 0;
                self.model.stored = 0;
                self.model.snaps = vec![Snap { items: vec![], stamp: 0, parent: None }];
                self.model.cur = 0;
                self.model.files.clear();
                self.model.dirty_since_commit = false;
                self.model.unflushed = true;
                obs.label("reset");
            }
            VOp::Reimport => {
                if self.commit_mode && self.model.dirty_since_commit {
                    return Ok(false);
                }
                self.reimport(obs)?;
            }
            VOp::Update { i, seed } => {
                if !is_raw {
                    return Ok(false);
                }
                let Some(i) = self.resolve_idx(*i) else { return Ok(false) };
                let stored_len = self.v().stored_len();
                if self.model.items[i].is_none() && i >= stored_len && kf::active("KF-C03-1") {
                    obs.exclude("KF-C03-1");
                    return Ok(false);
                }
                let val = self.next_val(*seed as u64);
                self.vm().raw_mut().unwrap().r_update_at(i, val).map_err(|e| format!("update_at({i}): {e}"))?;
                if self.model.items[i].is_none() {
                    obs.label("update-deleted-slot");
                }
                self.model.items[i] = Some(val);
                self.model.stored_dirty = true;
                self.touch();
            }
            VOp::Delete { i } => {
                if !is_raw {
                    return Ok(false);
                }
                let Some(i) = self.resolve_idx(*i) else { return Ok(false) };
                self.vm().raw_mut().unwrap().r_delete_at(i);
                self.model.items[i] = None;
                self.model.stored_dirty = true;
                self.touch();
                obs.label("delete");
            }
            VOp::Take { i } => {
                if !is_raw {
                    return Ok(false);
                }
                let Some(i) = self.resolve_idx(*i) else { return Ok(false) };
                let got = self.vm().raw_mut().unwrap().r_take_at(i).map_err(|e| format!("take_at({i}): {e}"))?;
                let want = self.model.items[i];
                if !same_opt(&got, &want) {
                    return Err(format!(
                        "take_at({i}) returned {:?} but the model holds {:?}",
                        got.map(|v| v.show()),
                        want.map(|v| v.show())
                    ));
                }
                self.model.items[i] = None;
                self.model.stored_dirty = true;
                self.touch();
                obs.label("take");
            }
            VOp::FillHole { seed } => {
                if !is_raw {
                    return Ok(false);
                }
                let val = self.next_val(*seed as u64);
                let first_hole = self.model.items.iter().position(|v| v.is_none());
                let stored_len = self.v().stored_len();
                if let Some(h) = first_hole
                    && h >= stored_len
                    && kf::active("KF-C03-1")
                {
                    // fill_first_hole_or_push goes through update(): same trigger
                    let _ = h;
                }
                let got = self
                    .vm()
                    .raw_mut()
                    .unwrap()
                    .r_fill_first_hole_or_push(val)
                    .map_err(|e| format!("fill_first_hole_or_push: {e}"))?;
                let want = match first_hole {
                    Some(h) => {
                        self.model.items[h] = Some(val);
                        obs.label("fill-hole");
                        h
                    }
                    None => {
                        self.model.items.push(Some(val));
                        self.model.items.len() - 1
                    }
                };
                if got != want {
                    return Err(format!("fill_first_hole_or_push returned index {got}, model expects {want}"));
                }
                self.model.stored_dirty = true;
                self.touch();
            }
            VOp::Commit { bump } => {
                let stamp = self.model.stamp + *bump as u64;
                self.note_write(obs);
                self.vm()
                    .stamped_write_with_changes(Stamp::new(stamp))
                    .map_err(|e| format!("stamped_write_with_changes({stamp}): {e}"))?;
                self.model_commit(stamp);
                obs.label("commit");
            }
            VOp::Rollback => {
                return self.rollback(obs);
            }
            VOp::RollbackBefore { back } => {
                return self.rollback_before(*back, obs);
            }
        }
        Ok(true)
    }

    fn touch(&mut self) {
        self.model.dirty_since_commit = true;
        self.model.unflushed = true;
    }

    pub fn model_commit(&mut self, stamp: u64) {
        let k = self.cfg.retention as usize;
        let m = &mut self.model;
        m.stamp = stamp;
        m.stored = m.items.len();
        m.unflushed = true;
        m.dirty_since_commit = false;
        if k == 0 {
            // plain stamped_write: no snapshot chain
            m.snaps = vec![Snap { items: m.items.clone(), stamp, parent: None }];
            m.cur = 0;
            m.files.clear();
            return;
        }
        m.snaps.push(Snap { items: m.items.clone(), stamp, parent: Some(m.cur) });
        m.cur = m.snaps.len() - 1;
        m.files.retain(|&s, _| s < stamp);
        while m.files.len() > k - 1 {
            let first = *m.files.keys().next().unwrap();
            m.files.remove(&first);
        }
        m.files.insert(stamp, m.cur);
    }

    /// plain rollback() from a committed (clean) state
    pub fn rollback(&mut self, obs: &mut Obs) -> Result<bool, String> {
        if self.model.dirty_since_commit {
            return Ok(false);
        }
        let cur_stamp = self.model.stamp;
        let expect_ok = self.model.files.get(&cur_stamp).copied();
        let r = self.vm().rollback();
        match (r, expect_ok) {
            (Ok(()), Some(idx)) => {
                let parent = self.model.snaps[idx].parent.expect("committed snapshot has a parent");
                let s = self.model.snaps[parent].clone();
                self.model.items = s.items;
                self.model.stamp = s.stamp;
                self.model.cur = parent;
                self.model.unflushed = true;
                self.model.stored_dirty = true;
                self.model.stored = self.model.stored.min(self.model.items.len());
                obs.label("rollback-ok");
                Ok(true)
            }
            (Err(_), None) => {
                obs.label("rollback-refused");
                Ok(true)
            }
            (Ok(()), None) => Err(format!(
                "rollback() succeeded although no change record for stamp {cur_stamp} should exist (retention {})",
                self.cfg.retention
            )),
            (Err(e), Some(_)) => Err(format!("rollback() from stamp {cur_stamp} failed: {e}")),
        }
    }

    pub fn rollback_before(&mut self, back: u8, obs: &mut Obs) -> Result<bool, String> {
        if self.model.dirty_since_commit {
            return Ok(false);
        }
        // target stamp: `back` commits behind the current one along the chain
        let mut idx = self.model.cur;
        for _ in 0..back {
            match self.model.snaps[idx].parent {
                Some(p) => idx = p,
                None => break,
            }
        }
        let target = self.model.snaps[idx].stamp; // roll back to a state with stamp < target
        if self.model.files.is_empty() && self.cfg.retention == 0 {
            // find_rollback_files reads a directory that was never created: refusal
            let r = self.vm().rollback_before(Stamp::new(target));
            return match r {
                Err(_) => {
                    obs.label("rollback_before-refused");
                    Ok(true)
                }
                Ok(s) if u64::from(s) == self.model.stamp => Ok(true),
                Ok(s) => Err(format!("rollback_before with retention 0 moved to stamp {s:?}")),
            };
        }
        // model walk
        let mut cur = self.model.cur;
        let mut stamp = self.model.stamp;
        let mut passed_abandoned = false;
        loop {
            if stamp < target {
                break;
            }
            let Some(&fi) = self.model.files.get(&stamp) else { break };
            // abandoned records with stamps between parent's stamp and this one?
            let parent = self.model.snaps[fi].parent.unwrap();
            let pstamp = self.model.snaps[parent].stamp;
            if self.model.files.range(pstamp + 1..stamp).next().is_some() {
                passed_abandoned = true;
            }
            cur = parent;
            stamp = pstamp;
        }
        let dir_exists = self.changes_dir().exists();
        let r = self.vm().rollback_before(Stamp::new(target));
        match r {
            Ok(s) => {
                if u64::from(s) != stamp {
                    return Err(format!(
                        "rollback_before({target}) returned stamp {} but the model ends on stamp {stamp}",
                        u64::from(s)
                    ));
                }
                let sn = self.model.snaps[cur].clone();
                if cur != self.model.cur {
                    obs.label("rollback_before-moved");
                }
                self.model.items = sn.items;
                self.model.stamp = sn.stamp;
                self.model.cur = cur;
                self.model.unflushed = true;
                self.model.stored_dirty = true;
                self.model.stored = self.model.stored.min(self.model.items.len());
                let _ = passed_abandoned;
                Ok(true)
            }
            Err(e) => {
                if !dir_exists {
                    obs.label("rollback_before-refused");
                    return Ok(true);
                }
                Err(format!("rollback_before({target}) from stamp {} failed: {e}", self.model.stamp))
            }
        }
    }

    pub fn changes_dir(&self) -> std::path::PathBuf {
        self.db.path().join("changes").join(format!("{}/usize", self.name))
    }

    pub fn reimport(&mut self, obs: &mut Obs) -> Result<(), String> {
        // flush vector + database, drop, import again with the same options
        self.note_write(obs);
        self.vm().flush().map_err(|e| format!("flush() before re-import: {e}"))?;
        self.after_write();
        self.db.flush().map_err(|e| format!("db.flush(): {e}"))?;
        self.model.unflushed = false;
        let had_holes = self.model.has_holes();
        drop(self.vec.take());
        let v = Self::import(&self.db, &self.name, self.version, self.cfg.retention, false)?;
        self.vec = Some(v);
        if had_holes {
            self.reimport_with_holes = true;
            obs.label("reimport-with-holes");
        }
        obs.label("reimport");
        Ok(())
    }

    /// C03 observation: len, every element incl. deleted slots, holes, stamp.
    pub fn observe(&self) -> Result<(), String> {
        let v = self.v();
        let m = &self.model;
        if v.len() != m.items.len() {
            return Err(format!("len() {} != model {}", v.len(), m.items.len()));
        }
        if u64::from(v.stamp()) != m.stamp {
            return Err(format!("stamp() {:?} != model {}", v.stamp(), m.stamp));
        }
        if let Some(raw) = v.raw() {
            let got = raw.r_collect_holed().map_err(|e| format!("collect_holed: {e}"))?;
            if let Some(d) = first_diff(&got, &m.items) {
                return Err(format!("collect_holed differs from model: {d}"));
            }
            let holes = raw.r_holes();
            let want: BTreeSet<usize> = m.holes();
            if holes != want {
                return Err(format!("holes() {holes:?} != model deleted slots {want:?}"));
            }
        } else {
            let got = v.collect();
            let want = m.dense();
            if let Some(d) = first_diff_dense(&got, &want) {
                return Err(format!("collect() differs from model: {d}"));
            }
        }
        Ok(())
    }

    /// hash of the logical contents (for differential traces)
    pub fn content_hash(&self) -> u64 {
        let mut h: u64 = 0xcbf29ce484222325;
        let mut feed = |b: &[u8]| {
            for &x in b {
                h ^= x as u64;
                h = h.wrapping_mul(0x100000001b3);
            }
        };
        let v = self.v();
        feed(&(v.len() as u64).to_le_bytes());
        feed(&u64::from(v.stamp()).to_le_bytes());
        if let Some(raw) = v.raw() {
            for it in raw.r_collect_holed().unwrap_or_default() {
                match it {
                    None => feed(&[0]),
                    Some(x) => {
                        feed(&[1]);
                        feed(&x.bits());
                    }
                }
            }
        } else {
            for x in v.collect() {
                feed(&[1]);
                feed(&x.bits());
            }
        }
        h
    }
}

// ------------------------------------------------------------------ dispatch

/// Calls `$f::<VecType>($($args),*)` for the vector type selected by `$cfg`.
#[macro_export]
macro_rules! dispatch_vec {
    ($cfg:expr, $f:ident, ($($args:expr),*)) => {{
        use $crate::vecmodel::{Fmt, Ty};
        use $crate::vecmodel::elem::{WrapU64, WrapU32B};
        use vecdb::{BytesVec, ZeroCopyVec, PcoVec, LZ4Vec, ZstdVec, EagerVec};
        match ($cfg.fmt, $cfg.ty) {
            (Fmt::Bytes, Ty::U16) => $f::<BytesVec<usize, u16>>($($args),*),
            (Fmt::Bytes, Ty::U32) => $f::<BytesVec<usize, u32>>($($args),*),
            (Fmt::Bytes, Ty::U64) => $f::<BytesVec<usize, u64>>($($args),*),
            (Fmt::Bytes, Ty::I64) => $f::<BytesVec<usize, i64>>($($args),*),
            (Fmt::Bytes, Ty::U128) => $f::<BytesVec<usize, u128>>($($args),*),
            (Fmt::Bytes, Ty::F32) => $f::<BytesVec<usize, f32>>($($args),*),
            (Fmt::Bytes, Ty::F64) => $f::<BytesVec<usize, f64>>($($args),*),
            (Fmt::Bytes, Ty::A16) => $f::<BytesVec<usize, [u8; 16]>>($($args),*),
            (Fmt::Bytes, Ty::A32) => $f::<BytesVec<usize, [u8; 32]>>($($args),*),
            (Fmt::Bytes, Ty::WrapU32B) => $f::<BytesVec<usize, WrapU32B>>($($args),*),
            (Fmt::ZeroCopy, Ty::U16) => $f::<ZeroCopyVec<usize, u16>>($($args),*),
            (Fmt::ZeroCopy, Ty::U32) => $f::<ZeroCopyVec<usize, u32>>($($args),*),
            (Fmt::ZeroCopy, Ty::U64) => $f::<ZeroCopyVec<usize, u64>>($($args),*),
            (Fmt::ZeroCopy, Ty::I64) => $f::<ZeroCopyVec<usize, i64>>($($args),*),
            (Fmt::ZeroCopy, Ty::F64) => $f::<ZeroCopyVec<usize, f64>>($($args),*),
            (Fmt::ZeroCopy, Ty::A32) => $f::<ZeroCopyVec<usize, [u8; 32]>>($($args),*),
            (Fmt::Pco, Ty::U16) => $f::<PcoVec<usize, u16>>($($args),*),
            (Fmt::Pco, Ty::U32) => $f::<PcoVec<usize, u32>>($($args),*),
            (Fmt::Pco, Ty::U64) => $f::<PcoVec<usize, u64>>($($args),*),
            (Fmt::Pco, Ty::I64) => $f::<PcoVec<usize, i64>>($($args),*),
            (Fmt::Pco, Ty::F32) => $f::<PcoVec<usize, f32>>($($args),*),
            (Fmt::Pco, Ty::F64) => $f::<PcoVec<usize, f64>>($($args),*),
            (Fmt::Pco, Ty::WrapU64) => $f::<PcoVec<usize, WrapU64>>($($args),*),
            (Fmt::Lz4, Ty::U32) => $f::<LZ4Vec<usize, u32>>($($args),*),
            (Fmt::Lz4, Ty::U64) => $f::<LZ4Vec<usize, u64>>($($args),*),
            (Fmt::Lz4, Ty::U128) => $f::<LZ4Vec<usize, u128>>($($args),*),
            (Fmt::Lz4, Ty::F64) => $f::<LZ4Vec<usize, f64>>($($args),*),
            (Fmt::Lz4, Ty::A32) => $f::<LZ4Vec<usize, [u8; 32]>>($($args),*),
            (Fmt::Zstd, Ty::U32) => $f::<ZstdVec<usize, u32>>($($args),*),
            (Fmt::Zstd, Ty::U64) => $f::<ZstdVec<usize, u64>>($($args),*),
            (Fmt::Zstd, Ty::U128) => $f::<ZstdVec<usize, u128>>($($args),*),
            (Fmt::Zstd, Ty::F64) => $f::<ZstdVec<usize, f64>>($($args),*),
            (Fmt::Zstd, Ty::A32) => $f::<ZstdVec<usize, [u8; 32]>>($($args),*),
            (Fmt::EagerBytes, Ty::U32) => $f::<EagerVec<BytesVec<usize, u32>>>($($args),*),
            (Fmt::EagerPco, Ty::U64) => $f::<EagerVec<PcoVec<usize, u64>>>($($args),*),
            (f, t) => Err(format!("configuration ({f:?},{t:?}) is not in the matrix")),
        }
    }};
}
