//! Read-path matrix (C08 / C20): every way of reading a range / an index is run
//! against the reference contents restricted to that range.

use vecdb::{ReadableBoxedVec, ReadableVec};

use super::elem::Elem;
use super::{first_diff_dense, same_opt};

/// reference contents visible through one reader
pub struct View<'a, T> {
    pub items: &'a [Option<T>],
    /// index-addressed reads of a deleted slot yield nothing (raw vector with holes);
    /// false for readers that are documented to ignore holes (stored-only views)
    pub what: &'static str,
}

impl<'a, T: Elem> View<'a, T> {
    pub fn len(&self) -> usize {
        self.items.len()
    }
    pub fn range(&self, from: usize, to: usize) -> Vec<T> {
        let len = self.len();
        let from = from.min(len);
        let to = to.min(len);
        if from >= to {
            return vec![];
        }
        self.items[from..to].iter().filter_map(|v| *v).collect()
    }
    pub fn at(&self, i: usize) -> Option<T> {
        self.items.get(i).copied().flatten()
    }
    pub fn has_holes(&self) -> bool {
        self.items.iter().any(|v| v.is_none())
    }
}

/// When false (C20: the access tap is the oracle) value mismatches are not failures.
pub static VALUES_MATTER: std::sync::atomic::AtomicBool = std::sync::atomic::AtomicBool::new(true);

pub fn fail(msg: String) -> Result<(), String> {
    if VALUES_MATTER.load(std::sync::atomic::Ordering::Relaxed) { Err(msg) } else { Ok(()) }
}

fn cmp<T: Elem>(what: &str, path: &str, from: usize, to: usize, got: &[T], want: &[T]) -> Result<(), String> {
    match first_diff_dense(got, want) {
        None => Ok(()),
        Some(d) => fail(format!("{what}: {path}({from}, {to}) disagrees with the reference contents: {d}")),
    }
}

pub fn i64_to_usize(i: i64, len: usize) -> usize {
    if i >= 0 {
        (i as usize).min(len)
    } else {
        let v = len as i64 + i;
        if v < 0 { 0 } else { v as usize }
    }
}

/// all range-read paths of a Sized ReadableVec
pub fn check_range<T: Elem, R: ReadableVec<usize, T>>(
    r: &R,
    view: &View<T>,
    from: usize,
    to: usize,
    salt: u64,
    count: &mut u64,
) -> Result<(), String> {
    let w = view.what;
    let want = view.range(from, to);
    *count += 14;
    cmp(w, "collect_range_at", from, to, &r.collect_range_at(from, to), &want)?;
    cmp(w, "collect_range", from, to, &r.collect_range(from, to), &want)?;
    cmp(w, "collect_range_dyn", from, to, &r.collect_range_dyn(from, to), &want)?;
    let sentinel = T::from_seed(salt ^ 0xABCD);
    let mut buf = vec![sentinel; 3];
    r.collect_range_into_at(from, to, &mut buf);
    cmp(w, "collect_range_into_at", from, to, &buf, &want)?;
    let mut buf = vec![sentinel];
    r.read_into_at(from, to, &mut buf);
    if buf.is_empty() || !buf[0].same(&sentinel) {
        return fail(format!("{w}: read_into_at({from}, {to}) cleared or overwrote the caller's buffer"));
    }
    cmp(w, "read_into_at", from, to, &buf[1..], &want)?;
    let mut buf = vec![sentinel];
    r.read_into(from, to, &mut buf);
    cmp(w, "read_into", from, to, &buf[1..], &want)?;
    let got = r.fold_range_at(from, to, Vec::new(), |mut a, v| {
        a.push(v);
        a
    });
    cmp(w, "fold_range_at", from, to, &got, &want)?;
    let got = r.fold_range(from, to, Vec::new(), |mut a, v| {
        a.push(v);
        a
    });
    cmp(w, "fold_range", from, to, &got, &want)?;
    let got: Result<Vec<T>, ()> = r.try_fold_range_at(from, to, Vec::new(), |mut a, v| {
        a.push(v);
        Ok(a)
    });
    cmp(w, "try_fold_range_at", from, to, &got.unwrap(), &want)?;
    // early exit: the closure fails at position k, everything before must have been delivered in order
    if !want.is_empty() {
        let k = (salt as usize) % want.len();
        let mut seen = Vec::new();
        let res: Result<(), usize> = r.try_fold_range_at(from, to, (), |(), v| {
            if seen.len() == k {
                return Err(seen.len());
            }
            seen.push(v);
            Ok(())
        });
        if res != Err(k) {
            return fail(format!("{w}: try_fold_range_at({from}, {to}) did not stop at the closure's error (position {k}): {res:?}"));
        }
        cmp(w, "try_fold_range_at[early-exit prefix]", from, to, &seen, &want[..k])?;
        let mut seen2 = Vec::new();
        let res: Result<(), usize> = r.try_for_each_range_at(from, to, |v| {
            if seen2.len() == k {
                return Err(k);
            }
            seen2.push(v);
            Ok(())
        });
        if res != Err(k) {
            return fail(format!("{w}: try_for_each_range_at({from}, {to}) did not stop at the closure's error"));
        }
        cmp(w, "try_for_each_range_at[early-exit prefix]", from, to, &seen2, &want[..k])?;
    }
    let mut got = Vec::new();
    r.for_each_range_at(from, to, |v| got.push(v));
    cmp(w, "for_each_range_at", from, to, &got, &want)?;
    let mut got = Vec::new();
    r.for_each_range(from, to, |v| got.push(v));
    cmp(w, "for_each_range", from, to, &got, &want)?;
    let mut got = Vec::new();
    r.for_each_range_dyn_at(from, to, &mut |v| got.push(v));
    cmp(w, "for_each_range_dyn_at", from, to, &got, &want)?;
    let mut got = Vec::new();
    r.for_each_range_dyn(from, to, &mut |v| got.push(v));
    cmp(w, "for_each_range_dyn", from, to, &got, &want)?;
    // signed ranges (python style)
    let len = view.len();
    let sf = if salt & 1 == 0 { from.min(i64::MAX as usize) as i64 } else { from as i64 - len as i64 };
    let st = if salt & 2 == 0 { to.min(i64::MAX as usize) as i64 } else { to as i64 - len as i64 };
    let (sf, st) = (sf.clamp(-(1 << 40), 1 << 40), st.clamp(-(1 << 40), 1 << 40));
    let ef = i64_to_usize(sf, len);
    let et = i64_to_usize(st, len);
    let wants = view.range(ef, et);
    cmp(w, "collect_signed_range", ef, et, &r.collect_signed_range(Some(sf), Some(st)), &wants)?;
    cmp(w, "collect_signed_range_dyn", ef, et, &r.collect_signed_range_dyn(Some(sf), Some(st)), &wants)?;
    cmp(w, "collect_signed_range(None,to)", 0, et, &r.collect_signed_range(None, Some(st)), &view.range(0, et))?;
    cmp(w, "collect_signed_range(from,None)", ef, len, &r.collect_signed_range(Some(sf), None), &view.range(ef, len))?;
    T::check_aggs(r, w, from, to, &want)?;
    Ok(())
}

/// whole-vector and index-addressed paths
pub fn check_points<T: Elem, R: ReadableVec<usize, T>>(
    r: &R,
    view: &View<T>,
    idxs: &[usize],
    count: &mut u64,
) -> Result<(), String> {
    let w = view.what;
    let len = view.len();
    if r.len() != len {
        return fail(format!("{w}: len() {} != reference {len}", r.len()));
    }
    *count += 8;
    let all = view.range(0, len);
    cmp(w, "collect", 0, len, &r.collect(), &all)?;
    cmp(w, "collect_dyn", 0, len, &r.collect_dyn(), &all)?;
    let mut got = Vec::new();
    r.for_each(|v| got.push(v));
    cmp(w, "for_each", 0, len, &got, &all)?;
    let got = r.fold(Vec::new(), |mut a, v| {
        a.push(v);
        a
    });
    cmp(w, "fold", 0, len, &got, &all)?;
    let chk = |path: &str, i: usize, got: Option<T>, want: Option<T>| -> Result<(), String> {
        if same_opt(&got, &want) {
            Ok(())
        } else {
            fail(format!(
                "{w}: {path}({i}) returned {:?}, reference holds {:?} (len {len})",
                got.map(|v| v.show()),
                want.map(|v| v.show())
            ))
        }
    };
    chk("collect_first", 0, r.collect_first(), view.at(0))?;
    if len > 0 {
        chk("collect_last", len - 1, r.collect_last(), view.at(len - 1))?;
    } else {
        chk("collect_last", 0, r.collect_last(), None)?;
    }
    for &i in idxs {
        *count += 2;
        chk("collect_one_at", i, r.collect_one_at(i), view.at(i))?;
        chk("collect_one", i, r.collect_one(i), view.at(i))?;
    }
    Ok(())
}

/// cursor paths. `sequential`: also next()/fold()/for_each() (hole-free views only)
pub fn check_cursor<T: Elem, R: ReadableVec<usize, T>>(
    r: &R,
    view: &View<T>,
    idxs: &[usize],
    start: usize,
    n: usize,
    count: &mut u64,
) -> Result<(), String> {
    let w = view.what;
    let len = view.len();
    let mut sorted: Vec<usize> = idxs.to_vec();
    sorted.sort();
    // index-addressed through a cursor (ascending, as the docs require for efficiency; any order is allowed)
    let mut c = r.cursor();
    for &i in &sorted {
        *count += 1;
        let got = c.get(i);
        let want = view.at(i);
        if !same_opt(&got, &want) {
            return fail(format!(
                "{w}: Cursor::get({i}) returned {:?}, reference holds {:?} (len {len})",
                got.map(|v| v.show()),
                want.map(|v| v.show())
            ));
        }
    }
    // sorted reads: values at the in-range, non-deleted indices, in order
    let want: Vec<T> = sorted.iter().filter_map(|&i| view.at(i)).collect();
    *count += 3;
    cmp(w, "read_sorted_at", sorted.first().copied().unwrap_or(0), sorted.len(), &r.read_sorted_at(&sorted), &want)?;
    cmp(w, "read_sorted", 0, sorted.len(), &r.read_sorted(&sorted), &want)?;
    let sentinel = T::from_seed(0x5EED);
    let mut out = vec![sentinel];
    r.read_sorted_into_at(&sorted, &mut out);
    cmp(w, "read_sorted_into_at", 0, sorted.len(), &out[1..], &want)?;
    if view.has_holes() {
        return Ok(());
    }
    // sequential access
    let mut c = r.cursor();
    c.advance(start);
    let s = start.min(len);
    if c.position() != s || c.remaining() != len - s {
        return fail(format!("{w}: Cursor position/remaining after advance({start}) = {}/{}, expected {s}/{}", c.position(), c.remaining(), len - s));
    }
    let mut got = vec![];
    for _ in 0..n.min(64) {
        match c.next() {
            Some(v) => got.push(v),
            None => break,
        }
    }
    *count += 3;
    let e = (s + n.min(64)).min(len);
    cmp(w, "Cursor::next", s, e, &got, &view.range(s, e))?;
    let got = c.fold(n, Vec::new(), |mut a, v| {
        a.push(v);
        a
    });
    let e2 = e.saturating_add(n).min(len);
    cmp(w, "Cursor::fold", e, e2, &got, &view.range(e, e2))?;
    let mut got = vec![];
    c.for_each(n, |v| got.push(v));
    let e3 = e2.saturating_add(n).min(len);
    cmp(w, "Cursor::for_each", e2, e3, &got, &view.range(e2, e3))?;
    if c.position() != e3 {
        return fail(format!("{w}: Cursor position {} after sequential reads, expected {e3}", c.position()));
    }
    // a get() must not disturb the sequential position
    let _ = c.get(0);
    if let Some(v) = c.next() {
        if !same_opt(&Some(v), &view.at(e3)) {
            return fail(format!("{w}: Cursor::next after get() returned the wrong element at {e3}"));
        }
    } else if e3 < len {
        return fail(format!("{w}: Cursor::next returned None at {e3} < len {len}"));
    }
    Ok(())
}

/// object-safe subset, for `read_only_boxed_clone()`
pub fn check_boxed<T: Elem>(
    r: &ReadableBoxedVec<usize, T>,
    view: &View<T>,
    from: usize,
    to: usize,
    idxs: &[usize],
    count: &mut u64,
) -> Result<(), String> {
    let w = view.what;
    let len = view.len();
    if r.len() != len {
        return fail(format!("{w}: len() {} != reference {len}", r.len()));
    }
    let want = view.range(from, to);
    *count += 5;
    cmp(w, "collect_range_dyn", from, to, &r.collect_range_dyn(from, to), &want)?;
    let mut got = vec![];
    r.for_each_range_dyn_at(from, to, &mut |v| got.push(v));
    cmp(w, "for_each_range_dyn_at", from, to, &got, &want)?;
    let mut buf = vec![];
    r.read_into_at(from, to, &mut buf);
    cmp(w, "read_into_at", from, to, &buf, &want)?;
    cmp(w, "collect_dyn", 0, len, &r.collect_dyn(), &view.range(0, len))?;
    let cl = r.clone();
    cmp(w, "clone().collect_range_dyn", from, to, &cl.collect_range_dyn(from, to), &want)?;
    for &i in idxs {
        *count += 1;
        let got = r.collect_one_at(i);
        if !same_opt(&got, &view.at(i)) {
            return fail(format!("{w}: collect_one_at({i}) returned {:?}, reference holds {:?}", got.map(|v| v.show()), view.at(i).map(|v| v.show())));
        }
    }
    let mut sorted = idxs.to_vec();
    sorted.sort();
    let wants: Vec<T> = sorted.iter().filter_map(|&i| view.at(i)).collect();
    cmp(w, "read_sorted_at", 0, sorted.len(), &r.read_sorted_at(&sorted), &wants)?;
    Ok(())
}
