//! Read-path matrix (C08 / C20): filled in below.
