//! E6: deterministic scheduler over the instrumented locks (hook H3) and yield points (H4).
//!
//! Real OS threads, but exactly one runs at a time. Every tapped lock request and every yield point
//! is a scheduling point: the thread parks and the controller (the calling thread) decides who
//! continues, from a generated choice vector. The controller keeps its own model of every RwLock
//! (holders + FIFO queue, writer-preferring: a queued writer blocks new readers); a request that
//! the model cannot grant parks the thread *in the model*, and real acquisitions only happen after
//! the model granted them, so the real lock never blocks and a run is a deterministic function of
//! (programs, choices). No enabled thread while some are unfinished = deadlock (definitive).

use std::cell::Cell;
use std::collections::{BTreeMap, BTreeSet, HashMap, VecDeque};
use std::sync::{Condvar, Mutex};
use std::time::Duration;

use rawdb::verif_sync::{Hooks, set_hooks};

#[derive(Clone, Copy, PartialEq, Debug)]
enum St {
    NotStarted,
    Running,
    AtWant { addr: usize, excl: bool },
    Parked { addr: usize, excl: bool },
    Granted,
    AtYield(&'static str),
    Joining(usize),
    Finished,
}

#[derive(Default)]
struct LockSt {
    readers: Vec<usize>,
    writer: Option<usize>,
    queue: VecDeque<(usize, bool)>,
}

struct Ctl {
    st: Vec<St>,
    current: Option<usize>,
    locks: HashMap<usize, LockSt>,
    names: HashMap<usize, String>,
    choices: Vec<u16>,
    stickiness: u16,
    /// yield points at which the yielding program is always preempted when another one is enabled
    preempt: Vec<&'static str>,
    /// programs (bit mask) that are held back while they wait at a request for a lock of this class
    /// and somebody else can run, for at most `points` scheduling points in total
    holdback: Option<Holdback>,
    pos: usize,
    trace: Vec<String>,
    abort: bool,
    switches: usize,
    points: usize,
    last: usize,
    /// yield names at which the yielding thread was preempted (another thread ran next)
    preempted_at: BTreeSet<&'static str>,
    yields_seen: BTreeSet<&'static str>,
    /// (held lock class, requested lock class) pairs observed
    lock_pairs: BTreeSet<(String, String)>,
    /// number of scheduling points at which >=2 threads held >=1 lock each
    both_holding: usize,
    /// a lock request could not be granted at least once
    contended: usize,
}

#[derive(Clone, Debug)]
pub struct Holdback {
    pub progs: u32,
    pub class: &'static str,
    pub points: usize,
}

static CTL: Mutex<Option<Ctl>> = Mutex::new(None);
static CV: Condvar = Condvar::new();
thread_local! { static ME: Cell<Option<usize>> = const { Cell::new(None) }; }

pub const ABORT_MSG: &str = "sched-abort";

fn lock_ctl() -> std::sync::MutexGuard<'static, Option<Ctl>> {
    CTL.lock().unwrap_or_else(|e| e.into_inner())
}

fn sched_point(me: usize, new: St) {
    let mut g = lock_ctl();
    {
        let Some(c) = g.as_mut() else { return };
        if c.abort {
            drop(g);
            std::panic::panic_any(ABORT_MSG);
        }
        c.st[me] = new;
        c.current = None;
    }
    CV.notify_all();
    loop {
        let Some(c) = g.as_ref() else { return };
        if c.abort {
            drop(g);
            std::panic::panic_any(ABORT_MSG);
        }
        if c.current == Some(me) {
            break;
        }
        g = CV.wait(g).unwrap_or_else(|e| e.into_inner());
    }
}

fn h_want(addr: usize, excl: bool) {
    if let Some(me) = ME.with(|m| m.get()) {
        sched_point(me, St::AtWant { addr, excl });
    }
}

fn h_yield(name: &'static str) {
    if let Some(me) = ME.with(|m| m.get()) {
        sched_point(me, St::AtYield(name));
    }
}

fn h_released(addr: usize, excl: bool) {
    let Some(me) = ME.with(|m| m.get()) else { return };
    let mut g = lock_ctl();
    let Some(c) = g.as_mut() else { return };
    if c.abort {
        return;
    }
    let Ctl { locks, st, .. } = c;
    let l = locks.entry(addr).or_default();
    if excl {
        if l.writer == Some(me) {
            l.writer = None;
        }
    } else if let Some(p) = l.readers.iter().position(|&t| t == me) {
        l.readers.swap_remove(p);
    }
    // grant from the head of the queue: one writer, or a run of readers
    while let Some(&(t, ex)) = l.queue.front() {
        let ok = if ex { l.writer.is_none() && l.readers.is_empty() } else { l.writer.is_none() };
        if !ok {
            break;
        }
        l.queue.pop_front();
        if ex {
            l.writer = Some(t);
        } else {
            l.readers.push(t);
        }
        st[t] = St::Granted;
        if ex {
            break;
        }
    }
}

static HOOKS: Hooks = Hooks { want: h_want, released: h_released, yield_point: h_yield };

/// Harness-level pause point (between two operations of a program).
pub fn pause(name: &'static str) {
    h_yield(name)
}

/// Blocks the calling program until program `target` has finished (a scheduler-aware join).
pub fn join(target: usize) {
    if let Some(me) = ME.with(|m| m.get()) {
        sched_point(me, St::Joining(target));
    }
}

/// The logical id of the calling program, if it runs under the scheduler.
pub fn me() -> Option<usize> {
    ME.with(|m| m.get())
}

#[derive(Debug, Default)]
pub struct Outcome {
    pub deadlock: Option<String>,
    /// (program, message) of programs that panicked (library panics; scheduler aborts excluded)
    pub panics: Vec<(usize, String)>,
    pub inconclusive: Option<String>,
    pub switches: usize,
    pub points: usize,
    pub preempted_at: BTreeSet<&'static str>,
    pub yields_seen: BTreeSet<&'static str>,
    pub lock_pairs: BTreeSet<(String, String)>,
    pub both_holding: usize,
    pub contended: usize,
    pub trace: Vec<String>,
}

fn class_of(names: &HashMap<usize, String>, addr: usize) -> String {
    names.get(&addr).cloned().unwrap_or_else(|| "vec-internal".to_string())
}

fn held_by(locks: &HashMap<usize, LockSt>, t: usize) -> Vec<usize> {
    let mut v: Vec<usize> = locks.iter().filter(|(_, l)| l.writer == Some(t) || l.readers.contains(&t)).map(|(a, _)| *a).collect();
    v.sort();
    v
}

pub type Prog = Box<dyn FnOnce() + Send>;

/// Runs the programs under the scheduler. `stickiness` (0..=65535): probability weight of letting
/// the thread that ran last continue when it is enabled (0 = uniform choice at every point).
pub fn run(progs: Vec<Prog>, choices: &[u16], stickiness: u16, names: HashMap<usize, String>) -> Outcome {
    run_with(progs, choices, stickiness, names, vec![])
}

/// Like [`run`]; a program that stops at one of the `preempt` yield points is passed over as long as
/// another program is enabled (directs the search into the window behind that point).
pub fn run_with(progs: Vec<Prog>, choices: &[u16], stickiness: u16, names: HashMap<usize, String>, preempt: Vec<&'static str>) -> Outcome {
    run_full(progs, choices, stickiness, names, preempt, None)
}

/// Like [`run_with`], plus a hold-back directive: the listed programs, when they stop at a request
/// for a lock of the given class (e.g. between a metadata snapshot and taking the memory map), are
/// passed over while another program can run - the search is directed into that window.
pub fn run_full(
    progs: Vec<Prog>,
    choices: &[u16],
    stickiness: u16,
    names: HashMap<usize, String>,
    preempt: Vec<&'static str>,
    holdback: Option<Holdback>,
) -> Outcome {
    let n = progs.len();
    *lock_ctl() = Some(Ctl {
        st: vec![St::NotStarted; n],
        current: None,
        locks: HashMap::new(),
        names,
        choices: choices.to_vec(),
        stickiness,
        preempt,
        holdback,
        pos: 0,
        trace: vec![],
        abort: false,
        switches: 0,
        points: 0,
        last: usize::MAX,
        preempted_at: BTreeSet::new(),
        yields_seen: BTreeSet::new(),
        lock_pairs: BTreeSet::new(),
        both_holding: 0,
        contended: 0,
    });
    set_hooks(Some(&HOOKS));
    let mut hs = vec![];
    for (i, p) in progs.into_iter().enumerate() {
        hs.push(std::thread::spawn(move || -> Result<(), String> {
            // wait for the first schedule
            {
                let mut g = lock_ctl();
                loop {
                    let Some(c) = g.as_ref() else { return Err(ABORT_MSG.into()) };
                    if c.abort {
                        drop(g);
                        // never started: mark finished so that nobody waits for us
                        if let Some(c) = lock_ctl().as_mut() {
                            c.st[i] = St::Finished;
                        }
                        CV.notify_all();
                        return Err(ABORT_MSG.into());
                    }
                    if c.current == Some(i) {
                        break;
                    }
                    g = CV.wait(g).unwrap_or_else(|e| e.into_inner());
                }
            }
            ME.with(|m| m.set(Some(i)));
            let r = std::panic::catch_unwind(std::panic::AssertUnwindSafe(p));
            ME.with(|m| m.set(None));
            {
                let mut g = lock_ctl();
                if let Some(c) = g.as_mut() {
                    c.st[i] = St::Finished;
                    if c.current == Some(i) {
                        c.current = None;
                    }
                }
            }
            CV.notify_all();
            r.map_err(|e| {
                e.downcast_ref::<String>()
                    .cloned()
                    .or_else(|| e.downcast_ref::<&str>().map(|s| s.to_string()))
                    .unwrap_or_else(|| "<non-string panic>".into())
            })
        }));
    }

    let mut deadlock = None;
    let mut inconclusive = None;
    let watchdog = Duration::from_secs(std::env::var("VERIF_SCHED_WATCHDOG_S").ok().and_then(|s| s.parse().ok()).unwrap_or(60));
    'outer: loop {
        let mut g = lock_ctl();
        // wait until the running thread reaches its next scheduling point
        let t0 = std::time::Instant::now();
        while g.as_ref().unwrap().current.is_some() {
            let (ng, to) = CV.wait_timeout(g, Duration::from_millis(500)).unwrap_or_else(|e| e.into_inner());
            g = ng;
            if to.timed_out() && t0.elapsed() > watchdog && g.as_ref().unwrap().current.is_some() {
                let c = g.as_mut().unwrap();
                inconclusive = Some(format!(
                    "program {:?} did not reach a scheduling point within {:?} (blocked in a primitive the taps do not cover?)",
                    c.current, watchdog
                ));
                c.abort = true;
                break 'outer;
            }
        }
        let c = g.as_mut().unwrap();
        if c.st.iter().all(|s| *s == St::Finished) {
            break;
        }
        loop {
            let enabled: Vec<usize> = (0..n)
                .filter(|&t| match c.st[t] {
                    St::NotStarted | St::AtWant { .. } | St::Granted | St::AtYield(_) => true,
                    St::Joining(x) => c.st[x] == St::Finished,
                    _ => false,
                })
                .collect();
            // hold-back directive
            let enabled: Vec<usize> = match &mut c.holdback {
                Some(h) if h.points > 0 => {
                    let held: Vec<usize> = enabled
                        .iter()
                        .copied()
                        .filter(|&t| {
                            h.progs >> t & 1 == 1
                                && matches!(c.st[t], St::AtWant { addr, .. } if c.names.get(&addr).is_some_and(|nm| nm == h.class))
                        })
                        .collect();
                    if !held.is_empty() && held.len() < enabled.len() {
                        h.points -= 1;
                        enabled.into_iter().filter(|t| !held.contains(t)).collect()
                    } else {
                        enabled
                    }
                }
                _ => enabled,
            };
            if enabled.is_empty() {
                // wait-for description
                let mut lines = vec![];
                for t in 0..n {
                    let held: Vec<String> = held_by(&c.locks, t).iter().map(|a| class_of(&c.names, *a)).collect();
                    let what = match c.st[t] {
                        St::Parked { addr, excl } => {
                            let l = &c.locks[&addr];
                            format!(
                                "waits for {} access to {} (held by writer {:?}, readers {:?}; queue {:?})",
                                if excl { "exclusive" } else { "shared" },
                                class_of(&c.names, addr),
                                l.writer,
                                l.readers,
                                l.queue
                            )
                        }
                        St::Joining(x) => format!("waits for program {x} to finish"),
                        St::Finished => "finished".into(),
                        s => format!("{s:?}"),
                    };
                    lines.push(format!("program {t}: holds {held:?}; {what}"));
                }
                deadlock = Some(lines.join(" | "));
                c.abort = true;
                break;
            }
            c.points += 1;
            let ch = if c.pos < c.choices.len() { c.choices[c.pos] } else { 0 };
            c.pos += 1;
            let forced_away = c.last != usize::MAX
                && enabled.len() > 1
                && matches!(c.st[c.last], St::AtYield(nm) if c.preempt.contains(&nm));
            let t = if forced_away {
                let others: Vec<usize> = enabled.iter().copied().filter(|&x| x != c.last).collect();
                others[(ch as usize * others.len()) >> 16]
            } else if c.stickiness > 0 && enabled.contains(&c.last) && ch < c.stickiness {
                c.last
            } else {
                enabled[(ch as usize * enabled.len()) >> 16]
            };
            if let St::AtWant { addr, excl } = c.st[t] {
                // lock-order bookkeeping
                let want_class = class_of(&c.names, addr);
                for h in held_by(&c.locks, t) {
                    let hc = class_of(&c.names, h);
                    c.lock_pairs.insert((hc, want_class.clone()));
                }
                let l = c.locks.entry(addr).or_default();
                let ok = if excl { l.writer.is_none() && l.readers.is_empty() } else { l.writer.is_none() && !l.queue.iter().any(|q| q.1) };
                if ok {
                    if excl {
                        l.writer = Some(t)
                    } else {
                        l.readers.push(t)
                    }
                } else {
                    l.queue.push_back((t, excl));
                    c.st[t] = St::Parked { addr, excl };
                    c.contended += 1;
                    if c.trace.len() < 400 {
                        c.trace.push(format!("p{t} parks on {want_class} ({})", if excl { "excl" } else { "shared" }));
                    }
                    continue;
                }
            }
            if let St::AtYield(nm) = c.st[t] {
                c.yields_seen.insert(nm);
            }
            // was somebody else, parked at a yield point, passed over?
            if t != c.last && c.last != usize::MAX {
                if let St::AtYield(nm) = c.st[c.last] {
                    c.preempted_at.insert(nm);
                }
                c.switches += 1;
                if c.trace.len() < 400 {
                    c.trace.push(format!("switch p{} -> p{t} ({:?})", c.last, c.st[t]));
                }
            }
            let holders = (0..n).filter(|&x| !held_by(&c.locks, x).is_empty()).count();
            if holders >= 2 {
                c.both_holding += 1;
            }
            c.last = t;
            c.st[t] = St::Running;
            c.current = Some(t);
            break;
        }
        drop(g);
        CV.notify_all();
        if deadlock.is_some() {
            break;
        }
    }
    CV.notify_all();
    let mut panics = vec![];
    if inconclusive.is_none() {
        for (i, h) in hs.into_iter().enumerate() {
            match h.join() {
                Ok(Ok(())) => {}
                Ok(Err(m)) => {
                    if m != ABORT_MSG {
                        panics.push((i, m));
                    }
                }
                Err(_) => panics.push((i, "<thread wrapper panicked>".into())),
            }
        }
    }
    set_hooks(None);
    let c = lock_ctl().take().unwrap();
    Outcome {
        deadlock,
        panics,
        inconclusive,
        switches: c.switches,
        points: c.points,
        preempted_at: c.preempted_at,
        yields_seen: c.yields_seen,
        lock_pairs: c.lock_pairs,
        both_holding: c.both_holding,
        contended: c.contended,
        trace: c.trace,
    }
}

/// Names for the database-level locks and the given regions' metadata locks.
pub fn lock_names(db: &rawdb::Database, regions: &[(String, rawdb::Region)]) -> HashMap<usize, String> {
    use rawdb::verif_sync::{RwLockReadGuard, addr_of};
    let mut m = HashMap::new();
    m.insert(addr_of(RwLockReadGuard::rwlock(&db.layout())), "layout".to_string());
    m.insert(addr_of(RwLockReadGuard::rwlock(&db.regions())), "regions".to_string());
    m.insert(addr_of(RwLockReadGuard::rwlock(&db.mmap())), "mmap".to_string());
    m.insert(addr_of(RwLockReadGuard::rwlock(&db.file())), "file".to_string());
    for (name, r) in regions {
        m.insert(addr_of(RwLockReadGuard::rwlock(&r.meta())), format!("meta[{name}]"));
    }
    m
}

pub fn merge_outcome(o: &Outcome, obs: &mut crate::common::Obs, classes: &mut BTreeMap<String, u64>) {
    obs.count("scheduling_points", o.points as u64);
    obs.count("context_switches", o.switches as u64);
    obs.count("lock_requests_that_had_to_wait", o.contended as u64);
    for (a, b) in &o.lock_pairs {
        *classes.entry(format!("{a} -> {b}")).or_insert(0) += 1;
    }
}
