//! E1: rawdb op language, reference model, interpreter, extent invariants.

use std::collections::{BTreeMap, BTreeSet, HashSet};

use proptest::prelude::*;
use rawdb::{Database, PAGE_SIZE, Region};
use serde::{Deserialize, Serialize};

use crate::common::tmp::Scratch;
use crate::common::{Obs, frac, pat_bytes, rank};

// ------------------------------------------------------------------ ops

#[derive(Clone, Copy, Debug, Serialize, Deserialize, PartialEq, Eq)]
pub enum OffSel {
    Zero,
    End,
    EndMinus1,
    Frac(u16),
}

impl OffSel {
    pub fn resolve(self, len: usize) -> usize {
        match self {
            OffSel::Zero => 0,
            OffSel::End => len,
            OffSel::EndMinus1 => len.saturating_sub(1),
            OffSel::Frac(f) => frac(f, len),
        }
    }
}

#[derive(Clone, Debug, Serialize, Deserialize, PartialEq, Eq)]
pub enum Op {
    Create { name: u8 },
    Append { r: u16, len: u32, pat: u8 },
    WriteAt { r: u16, off: OffSel, len: u32, pat: u8 },
    Truncate { r: u16, to: OffSel },
    TruncateWrite { r: u16, at: OffSel, len: u32, pat: u8 },
    Rename { r: u16, name: u8 },
    Remove { r: u16 },
    RemoveByName { r: u16 },
    Retain { mask: u16, extra: bool },
    FlushRegion { r: u16 },
    Flush,
    Compact,
    Reopen,
    SetMinRegions { n: u8 },
    ReadCheck { r: u16, off: u16, len: u16 },
}

pub const NAME_POOL: usize = 10;

pub fn pool_name(i: u8) -> String {
    match i as usize % NAME_POOL {
        0 => "a".into(),
        1 => "b".into(),
        2 => "c".into(),
        3 => "dd".into(),
        4 => "e_vec/regi0n".into(),
        5 => "f".into(),
        6 => "g".into(),
        7 => "h".into(),
        8 => "L".repeat(1024),
        _ => "ünï/çødé ✓ 名前".into(),
    }
}

pub fn off_sel() -> impl Strategy<Value = OffSel> {
    prop_oneof![
        2 => Just(OffSel::Zero),
        3 => Just(OffSel::End),
        1 => Just(OffSel::EndMinus1),
        3 => any::<u16>().prop_map(OffSel::Frac),
    ]
}

pub fn size_strategy(big: bool) -> BoxedStrategy<u32> {
    let huge = if big { 600_000u32..1_400_000 } else { 30_000u32..60_000 };
    prop_oneof![
        1 => Just(0u32),
        4 => 1u32..=64,
        3 => 4090u32..=4102,
        3 => 4097u32..=20480,
        4 => (0u32..7, -2i32..=2).prop_map(|(k, d)| ((4096u32 << k) as i32 + d) as u32),
        1 => huge,
    ]
    .boxed()
}

pub fn op_strategy(big: bool) -> BoxedStrategy<Op> {
    let sz = size_strategy(big);
    prop_oneof![
        6 => (0u8..NAME_POOL as u8).prop_map(|name| Op::Create { name }),
        10 => (any::<u16>(), sz.clone(), any::<u8>()).prop_map(|(r, len, pat)| Op::Append { r, len, pat }),
        6 => (any::<u16>(), off_sel(), sz.clone(), any::<u8>())
            .prop_map(|(r, off, len, pat)| Op::WriteAt { r, off, len, pat }),
        3 => (any::<u16>(), off_sel()).prop_map(|(r, to)| Op::Truncate { r, to }),
        4 => (any::<u16>(), off_sel(), sz.clone(), any::<u8>())
            .prop_map(|(r, at, len, pat)| Op::TruncateWrite { r, at, len, pat }),
        2 => (any::<u16>(), 0u8..NAME_POOL as u8).prop_map(|(r, name)| Op::Rename { r, name }),
        4 => any::<u16>().prop_map(|r| Op::Remove { r }),
        1 => any::<u16>().prop_map(|r| Op::RemoveByName { r }),
        1 => (any::<u16>(), any::<bool>()).prop_map(|(mask, extra)| Op::Retain { mask, extra }),
        2 => any::<u16>().prop_map(|r| Op::FlushRegion { r }),
        5 => Just(Op::Flush),
        2 => Just(Op::Compact),
        3 => Just(Op::Reopen),
        1 => (0u8..40).prop_map(|n| Op::SetMinRegions { n }),
        2 => (any::<u16>(), any::<u16>(), any::<u16>()).prop_map(|(r, off, len)| Op::ReadCheck { r, off, len }),
    ]
    .boxed()
}

#[derive(Clone, Debug, Serialize, Deserialize)]
pub struct History {
    /// 0 = Database::open, otherwise open_with_min_len(min_len)
    pub min_len: u32,
    pub ops: Vec<Op>,
}

pub fn history_strategy(max_ops: usize, big: bool) -> BoxedStrategy<History> {
    let min_len = prop_oneof![
        4 => Just(0u32),
        1 => Just(4096u32),
        1 => Just(1 << 20),
        1 => Just(3 * (1 << 20) + 1),
    ];
    // 1 history in 10 starts from a hole geometry the random ops rarely build: 5..8 one-page regions side by side,
    // all flushed, then 2..5 of them removed one by one with a flush after each (so that freed extents are promoted
    // next to holes that already exist, in every order), before the random part allocates into those holes
    let prologue = (0u8..10, 5usize..=8, prop::collection::vec(any::<u16>(), 2..=5), any::<u8>()).prop_map(|(sel, n, removes, pat)| {
        let mut ops = vec![];
        if sel == 0 {
            for k in 0..n {
                ops.push(Op::Create { name: k as u8 });
            }
            for k in 0..n {
                ops.push(Op::Append { r: ((k * 65536 + 32768) / n) as u16, len: 10 + k as u32, pat });
            }
            ops.push(Op::Flush);
            for r in removes {
                ops.push(Op::Remove { r });
                ops.push(Op::Flush);
            }
        }
        ops
    });
    (min_len, prologue, prop::collection::vec(op_strategy(big), 0..=max_ops))
        .prop_map(|(min_len, mut pre, ops)| {
            pre.extend(ops);
            History { min_len, ops: pre }
        })
        .boxed()
}

// ------------------------------------------------------------------ model

#[derive(Clone, Debug, PartialEq, Eq)]
pub struct MRegion {
    pub bytes: Vec<u8>,
    /// ever held data or was renamed => must survive flush + reopen
    pub persist: bool,
    /// identity that survives renames (crash engine: "the same region" across snapshots)
    pub uid: u64,
}

pub type Model = BTreeMap<String, MRegion>;

#[derive(Clone, Copy, Debug, PartialEq, Eq)]
pub enum Placement {
    None,
    Fits,
    ExtendLast,
    AdjacentHole,
    RelocateToHole,
    RelocateToEnd,
}

#[derive(Clone, Debug, Default)]
pub struct Checks {
    pub contents: bool,
    pub extents: bool,
    pub placement_rule: bool,
}

pub struct RawSut {
    pub dir: Scratch,
    pub db: Option<Database>,
    pub handles: BTreeMap<String, Region>,
    pub model: Model,
    pub dirty_since_flush: bool,
    pub min_len: usize,
    pub checks: Checks,
    pub write_counter: usize,
    pub next_uid: u64,
    // statistics of this history
    pub relocations: u32,
    pub reuse_of_freed: u32,
    pub reopens_multi: u32,
    pub coalesce_promotions: u32,
    pub placements_with_hole: u32,
}

#[derive(Clone, Debug)]
pub struct LayoutSnap {
    pub regions: Vec<(usize, usize, usize, String)>, // start, reserved, len, name
    pub holes: Vec<(usize, usize)>,
    pub pending: Vec<(usize, usize)>,
    pub reserved: Vec<(usize, usize)>,
    pub layout_len: usize,
    pub file_len: usize,
}

pub fn snapshot_layout(db: &Database) -> LayoutSnap {
    let layout = db.layout();
    let mut regions = vec![];
    for (&s, r) in layout.start_to_region() {
        let m = r.meta();
        regions.push((s, m.reserved(), m.len(), m.id().to_string()));
    }
    LayoutSnap {
        regions,
        holes: layout.start_to_hole().iter().map(|(&a, &b)| (a, b)).collect(),
        pending: layout.pending_holes().iter().map(|(&a, &b)| (a, b)).collect(),
        reserved: layout.reserved_extents().iter().map(|(&a, &b)| (a, b)).collect(),
        layout_len: layout.len(),
        file_len: db.file_len(),
    }
}

/// E1 extent invariants (C02). `quiescent`: no operation in flight.
pub fn check_extents(db: &Database) -> Result<LayoutSnap, String> {
    let snap = snapshot_layout(db);
    let real_file_len = std::fs::metadata(db.path().join("data")).map(|m| m.len() as usize).unwrap_or(0);
    if real_file_len != snap.file_len {
        return Err(format!("cached file_len {} != on-disk data file length {}", snap.file_len, real_file_len));
    }
    // regions table vs layout
    {
        let regions = db.regions();
        let layout = db.layout();
        let mut in_table = BTreeSet::new();
        for (name, &idx) in regions.id_to_index() {
            let Some(r) = regions.get_from_index(idx) else {
                return Err(format!("id_to_index has '{name}' -> {idx} but slot is empty"));
            };
            let m = r.meta();
            if m.id() != name {
                return Err(format!("id_to_index key '{name}' but region's id is '{}'", m.id()));
            }
            if r.index() != idx {
                return Err(format!("region '{name}' index {} != table index {idx}", r.index()));
            }
            in_table.insert(idx);
            match layout.start_to_region().get(&m.start()) {
                Some(lr) if lr.index() == idx => {}
                Some(lr) => {
                    return Err(format!(
                        "layout has region index {} at start {} where '{name}' (index {idx}) lives: double-booked",
                        lr.index(),
                        m.start()
                    ));
                }
                None => {
                    return Err(format!("live region '{name}' (start {}) is not in the layout", m.start()));
                }
            }
        }
        for (i, slot) in regions.index_to_region().iter().enumerate() {
            if slot.is_some() && !in_table.contains(&i) {
                return Err(format!("slot {i} holds a region that no name maps to"));
            }
        }
        if layout.start_to_region().len() != in_table.len() {
            return Err(format!(
                "layout tracks {} regions but {} are live",
                layout.start_to_region().len(),
                in_table.len()
            ));
        }
        for (&s, r) in layout.start_to_region() {
            if r.meta().start() != s {
                return Err(format!("layout key {s} != region start {}", r.meta().start()));
            }
        }
        // hole_to_starts consistent with start_to_hole
        let mut from_sizes: Vec<(usize, usize)> = vec![];
        for (&size, starts) in layout.hole_to_starts() {
            if starts.is_empty() {
                return Err(format!("hole_to_starts has an empty bucket for size {size}"));
            }
            for &s in starts.iter() {
                from_sizes.push((s, size));
            }
        }
        from_sizes.sort();
        let direct: Vec<(usize, usize)> = layout.start_to_hole().iter().map(|(&a, &b)| (a, b)).collect();
        if from_sizes != direct {
            return Err(format!("hole size index {from_sizes:?} disagrees with hole map {direct:?}"));
        }
    }
    for (s, res, len, name) in &snap.regions {
        if s % PAGE_SIZE != 0 || res % PAGE_SIZE != 0 {
            return Err(format!("region '{name}' extent not page aligned: start {s} reserved {res}"));
        }
        if *res < PAGE_SIZE {
            return Err(format!("region '{name}' reserve {res} below one page"));
        }
        if len > res {
            return Err(format!("region '{name}' len {len} > reserved {res}"));
        }
        if s + res > snap.file_len {
            return Err(format!("region '{name}' extent {s}+{res} beyond file length {}", snap.file_len));
        }
    }
    if !snap.reserved.is_empty() {
        return Err(format!("reservations left at quiescence: {:?}", snap.reserved));
    }
    // exact partition of [0, layout_len)
    let mut all: Vec<(usize, usize, String)> = vec![];
    for (s, res, _, name) in &snap.regions {
        all.push((*s, *res, format!("region '{name}'")));
    }
    for (s, sz) in &snap.holes {
        all.push((*s, *sz, "hole".into()));
    }
    for (s, sz) in &snap.pending {
        all.push((*s, *sz, "pending hole".into()));
    }
    all.sort();
    let mut pos = 0usize;
    for (s, sz, what) in &all {
        if *sz == 0 {
            return Err(format!("{what} at {s} has size 0"));
        }
        if s % PAGE_SIZE != 0 || sz % PAGE_SIZE != 0 {
            return Err(format!("{what} at {s} size {sz} not page aligned"));
        }
        if *s < pos {
            return Err(format!("{what} at {s}..{} overlaps the extent ending at {pos} (double-booked)", s + sz));
        }
        if *s > pos {
            return Err(format!("bytes {pos}..{s} belong to no region and no tracked free extent (lost)"));
        }
        pos = s + sz;
    }
    if pos != snap.layout_len {
        return Err(format!("extents end at {pos} but Layout::len() is {}", snap.layout_len));
    }
    if snap.layout_len > snap.file_len {
        return Err(format!("allocated area {} exceeds file length {}", snap.layout_len, snap.file_len));
    }
    // adjacent tracked holes merged
    for w in snap.holes.windows(2) {
        if w[0].0 + w[0].1 == w[1].0 {
            return Err(format!("adjacent free extents not merged: {:?} and {:?}", w[0], w[1]));
        }
    }
    Ok(snap)
}

fn inside_some(holes: &[(usize, usize)], start: usize, size: usize) -> bool {
    holes.iter().any(|&(hs, hsz)| start >= hs && start + size <= hs + hsz)
}

impl RawSut {
    pub fn open(min_len: usize, checks: Checks) -> Result<Self, String> {
        Self::open_hooked(min_len, checks, |_| {})
    }

    /// `before_open` sees the database directory before the first open (crash engine: start the tap)
    pub fn open_hooked(min_len: usize, checks: Checks, before_open: impl FnOnce(&std::path::Path)) -> Result<Self, String> {
        let dir = Scratch::new("raw");
        before_open(&dir.path().join("db"));
        let db = Self::open_db(dir.path(), min_len)?;
        Ok(Self {
            dir,
            db: Some(db),
            handles: BTreeMap::new(),
            model: Model::new(),
            dirty_since_flush: false,
            min_len,
            checks,
            write_counter: 0,
            next_uid: 0,
            relocations: 0,
            reuse_of_freed: 0,
            reopens_multi: 0,
            coalesce_promotions: 0,
            placements_with_hole: 0,
        })
    }

    fn open_db(path: &std::path::Path, min_len: usize) -> Result<Database, String> {
        let p = path.join("db");
        if min_len == 0 {
            Database::open(&p).map_err(|e| format!("open failed: {e}"))
        } else {
            Database::open_with_min_len(&p, min_len).map_err(|e| format!("open_with_min_len failed: {e}"))
        }
    }

    pub fn db(&self) -> &Database {
        self.db.as_ref().unwrap()
    }

    pub fn live_names(&self) -> Vec<String> {
        self.model.keys().cloned().collect()
    }

    pub fn pick(&self, r: u16) -> Option<String> {
        let names = self.live_names();
        if names.is_empty() { None } else { Some(names[rank(r, names.len())].clone()) }
    }

    fn handle(&mut self, name: &str) -> Result<Region, String> {
        if let Some(h) = self.handles.get(name) {
            return Ok(h.clone());
        }
        let h = self
            .db()
            .get_region(name)
            .ok_or_else(|| format!("live region '{}' not found by get_region", short(name)))?;
        self.handles.insert(name.to_string(), h.clone());
        Ok(h)
    }

    fn next_bytes(&mut self, pat: u8, len: usize) -> Vec<u8> {
        let base = self.write_counter;
        self.write_counter += len + 17;
        pat_bytes(pat, base, len)
    }

    /// full comparison of every live region with the model + name set
    pub fn check_contents(&self) -> Result<(), String> {
        let db = self.db();
        {
            let regions = db.regions();
            let mut names: Vec<&String> = regions.id_to_index().keys().collect();
            names.sort();
            let model_names: Vec<&String> = self.model.keys().collect();
            if names != model_names {
                let a: Vec<String> = names.iter().map(|s| short(s)).collect();
                let b: Vec<String> = model_names.iter().map(|s| short(s)).collect();
                return Err(format!("live region names {a:?} != model names {b:?}"));
            }
        }
        for (name, m) in &self.model {
            let r = db
                .get_region(name)
                .ok_or_else(|| format!("region '{}' missing", short(name)))?;
            let len = r.meta().len();
            if len != m.bytes.len() {
                return Err(format!("region '{}' len {} != model len {}", short(name), len, m.bytes.len()));
            }
            let reader = r.create_reader();
            if reader.len() != len {
                return Err(format!("reader len {} != meta len {len} for '{}'", reader.len(), short(name)));
            }
            let got = reader.read_all();
            if got != &m.bytes[..] {
                let i = got.iter().zip(&m.bytes).position(|(a, b)| a != b).unwrap_or(0);
                return Err(format!(
                    "region '{}' differs from model at offset {i} of {len}: got {:#x} want {:#x}",
                    short(name),
                    got[i],
                    m.bytes[i]
                ));
            }
            drop(reader);
        }
        Ok(())
    }

    fn after_op(&mut self) -> Result<Option<LayoutSnap>, String> {
        if self.checks.contents {
            self.check_contents()?;
        }
        if self.checks.extents {
            return Ok(Some(check_extents(self.db())?));
        }
        Ok(None)
    }

    fn write_like(
        &mut self,
        name: &str,
        obs: &mut Obs,
        kind: &'static str,
        at: Option<usize>,
        truncate: bool,
        data: Vec<u8>,
    ) -> Result<(), String> {
        let h = self.handle(name)?;
        let before = snapshot_layout(self.db());
        let (start0, res0, len0) = {
            let m = h.meta();
            (m.start(), m.reserved(), m.len())
        };
        let was_last = before.regions.last().map(|r| r.0) == Some(start0)
            && before.holes.last().is_none_or(|h| h.0 < start0)
            && before.pending.last().is_none_or(|h| h.0 < start0);
        let res = match (at, truncate) {
            (None, _) => h.write(&data),
            (Some(a), false) => h.write_at(&data, a),
            (Some(a), true) => h.truncate_write(a, &data),
        };
        res.map_err(|e| format!("{kind} on '{}' (len {len0}, at {at:?}, {} bytes) failed: {e}", short(name), data.len()))?;
        // model
        let m = self.model.get_mut(name).unwrap();
        let off = at.unwrap_or(m.bytes.len());
        if truncate {
            m.bytes.truncate(off);
        }
        let end = off + data.len();
        if m.bytes.len() < end {
            m.bytes.resize(end, 0);
        }
        m.bytes[off..end].copy_from_slice(&data);
        if !data.is_empty() {
            m.persist = true;
        }
        self.dirty_since_flush = true;
        // classify placement
        let (start1, res1) = {
            let mm = h.meta();
            (mm.start(), mm.reserved())
        };
        let placement = if start1 != start0 {
            self.relocations += 1;
            if start1 < before.layout_len { Placement::RelocateToHole } else { Placement::RelocateToEnd }
        } else if res1 != res0 {
            if was_last { Placement::ExtendLast } else { Placement::AdjacentHole }
        } else {
            Placement::Fits
        };
        match placement {
            Placement::Fits => obs.label("place:fits"),
            Placement::ExtendLast => obs.label("place:extend-last"),
            Placement::AdjacentHole => obs.label("place:adjacent-hole"),
            Placement::RelocateToHole => {
                obs.label("place:relocate-to-hole");
                self.reuse_of_freed += 1;
            }
            Placement::RelocateToEnd => obs.label("place:relocate-to-end"),
            Placement::None => {}
        }
        if truncate && off < len0 {
            obs.label("truncate_write:at<len");
        }
        if start1 != start0 {
            let adequate = before.holes.iter().any(|&(_, sz)| sz >= res1);
            if !before.holes.is_empty() {
                self.placements_with_hole += 1;
                obs.label("placement-with-holes-present");
            }
            if self.checks.placement_rule && adequate && !inside_some(&before.holes, start1, res1) {
                return Err(format!(
                    "relocation of '{}' needed {res1} bytes, a free extent of sufficient size existed ({:?}) but the region was placed at {start1} (layout end was {})",
                    short(name),
                    before.holes,
                    before.layout_len
                ));
            }
        }
        Ok(())
    }

    pub fn step(&mut self, op: &Op, obs: &mut Obs) -> Result<(), String> {
        match op {
            Op::Create { name } => {
                let name = pool_name(*name);
                let before = snapshot_layout(self.db());
                let existed = self.model.contains_key(&name);
                let r = self
                    .db()
                    .create_region_if_needed(&name)
                    .map_err(|e| format!("create '{}' failed: {e}", short(&name)))?;
                if !existed {
                    self.next_uid += 1;
                    self.model.insert(name.clone(), MRegion { bytes: vec![], persist: false, uid: self.next_uid });
                    let (s, res) = {
                        let m = r.meta();
                        (m.start(), m.reserved())
                    };
                    if !before.holes.is_empty() {
                        self.placements_with_hole += 1;
                        obs.label("placement-with-holes-present");
                    }
                    if s < before.layout_len {
                        self.reuse_of_freed += 1;
                        obs.label("create-in-hole");
                    }
                    if self.checks.placement_rule
                        && before.holes.iter().any(|&(_, sz)| sz >= PAGE_SIZE)
                        && !inside_some(&before.holes, s, res)
                    {
                        return Err(format!(
                            "creation of '{}' placed at {s} although free extents {:?} existed",
                            short(&name),
                            before.holes
                        ));
                    }
                } else {
                    obs.label("create-existing");
                }
                self.handles.insert(name, r);
                self.dirty_since_flush = true;
            }
            Op::Append { r, len, pat } => {
                let Some(name) = self.pick(*r) else { return Ok(()) };
                let data = self.next_bytes(*pat, *len as usize);
                self.write_like(&name, obs, "write", None, false, data)?;
            }
            Op::WriteAt { r, off, len, pat } => {
                let Some(name) = self.pick(*r) else { return Ok(()) };
                let cur = self.model[&name].bytes.len();
                let at = off.resolve(cur);
                let data = self.next_bytes(*pat, *len as usize);
                self.write_like(&name, obs, "write_at", Some(at), false, data)?;
            }
            Op::TruncateWrite { r, at, len, pat } => {
                let Some(name) = self.pick(*r) else { return Ok(()) };
                let cur = self.model[&name].bytes.len();
                let at = at.resolve(cur);
                let data = self.next_bytes(*pat, *len as usize);
                self.write_like(&name, obs, "truncate_write", Some(at), true, data)?;
            }
            Op::Truncate { r, to } => {
                let Some(name) = self.pick(*r) else { return Ok(()) };
                let cur = self.model[&name].bytes.len();
                let to = to.resolve(cur);
                let h = self.handle(&name)?;
                h.truncate(to).map_err(|e| format!("truncate '{}' to {to} of {cur} failed: {e}", short(&name)))?;
                self.model.get_mut(&name).unwrap().bytes.truncate(to);
                self.dirty_since_flush = true;
                if to < cur {
                    obs.label("truncate");
                }
            }
            Op::Rename { r, name: new } => {
                let Some(name) = self.pick(*r) else { return Ok(()) };
                let new = pool_name(*new);
                if self.model.contains_key(&new) {
                    if new == name {
                        return Ok(());
                    }
                    // a request the library refuses (C13 establishes that the refusal has no effect): issued here too,
                    // so that the histories of the other checks continue after a refused request
                    let h = self.handle(&name)?;
                    return match h.rename(&new) {
                        Err(_) => {
                            obs.label("rename:refused(existing name)");
                            Ok(())
                        }
                        Ok(()) => Err(format!("rename '{}' -> '{}' succeeded although a region of that name exists", short(&name), short(&new))),
                    };
                }
                let h = self.handle(&name)?;
                h.rename(&new).map_err(|e| format!("rename '{}' -> '{}' failed: {e}", short(&name), short(&new)))?;
                let mut m = self.model.remove(&name).unwrap();
                m.persist = true;
                self.model.insert(new.clone(), m);
                if let Some(h) = self.handles.remove(&name) {
                    self.handles.insert(new, h);
                }
                self.dirty_since_flush = true;
                obs.label("rename");
            }
            Op::Remove { r } => {
                let Some(name) = self.pick(*r) else { return Ok(()) };
                let h = self.handle(&name)?;
                self.handles.remove(&name);
                h.remove().map_err(|e| format!("remove '{}' failed: {e}", short(&name)))?;
                self.model.remove(&name);
                self.dirty_since_flush = true;
                obs.label("remove");
            }
            Op::RemoveByName { r } => {
                let Some(name) = self.pick(*r) else { return Ok(()) };
                self.handles.remove(&name);
                self.db()
                    .remove_region(&name)
                    .map_err(|e| format!("remove_region '{}' failed: {e}", short(&name)))?;
                self.model.remove(&name);
                self.dirty_since_flush = true;
                obs.label("remove");
            }
            Op::Retain { mask, extra } => {
                let names = self.live_names();
                let mut keep: HashSet<String> = HashSet::new();
                for (i, n) in names.iter().enumerate() {
                    if mask >> (i % 16) & 1 == 1 {
                        keep.insert(n.clone());
                    }
                }
                for n in &names {
                    if !keep.contains(n) {
                        self.handles.remove(n);
                    }
                }
                let mut arg = keep.clone();
                if *extra {
                    arg.insert("not-a-region".into());
                }
                self.db().retain_regions(arg).map_err(|e| format!("retain_regions failed: {e}"))?;
                self.model.retain(|k, _| keep.contains(k));
                self.dirty_since_flush = true;
                obs.label("retain");
            }
            Op::FlushRegion { r } => {
                let Some(name) = self.pick(*r) else { return Ok(()) };
                let h = self.handle(&name)?;
                match h.flush() {
                    Ok(_) => obs.label("flush-region"),
                    // documented refusal: the metadata of a region that never held data
                    // and was never renamed has never been written to the table
                    Err(rawdb::Error::RegionMetadataUnwritten) if !self.model[&name].persist => {
                        obs.label("flush-region-unwritten")
                    }
                    Err(e) => return Err(format!("Region::flush '{}' failed: {e}", short(&name))),
                }
            }
            Op::Flush => {
                self.flush(obs)?;
            }
            Op::Compact => {
                let before = snapshot_layout(self.db());
                self.db().compact().map_err(|e| format!("compact failed: {e}"))?;
                self.note_promotion(&before, obs);
                self.dirty_since_flush = false;
                obs.label("compact");
            }
            Op::Reopen => {
                if self.dirty_since_flush {
                    self.flush(obs)?;
                }
                self.reopen(obs)?;
            }
            Op::SetMinRegions { n } => {
                self.db()
                    .set_min_regions(*n as usize)
                    .map_err(|e| format!("set_min_regions({n}) failed: {e}"))?;
                obs.label("set_min_regions");
            }
            Op::ReadCheck { r, off, len } => {
                let Some(name) = self.pick(*r) else { return Ok(()) };
                let h = self.handle(&name)?;
                let m = &self.model[&name];
                let total = m.bytes.len();
                let off = frac(*off, total);
                let len = frac(*len, total - off);
                let reader = h.create_reader();
                if reader.len() != total {
                    return Err(format!("reader.len() {} != model {total}", reader.len()));
                }
                let a = reader.read(off, len);
                let b = reader.unchecked_read(off, len);
                let c = &reader.prefixed(off)[..len];
                let want = &m.bytes[off..off + len];
                if a != want || b != want || c != want {
                    return Err(format!("sub-range read {off}+{len} of '{}' differs from model", short(&name)));
                }
                if reader.is_empty() != (total == 0) {
                    return Err("is_empty disagrees with len".into());
                }
                drop(reader);
                obs.label("readcheck");
            }
        }
        self.after_op()?;
        Ok(())
    }

    fn note_promotion(&mut self, before: &LayoutSnap, obs: &mut Obs) {
        // a pending hole adjacent to an existing hole (or another pending hole) => coalescing exercised
        for &(ps, psz) in &before.pending {
            let adj = before.holes.iter().any(|&(hs, hsz)| hs + hsz == ps || ps + psz == hs)
                || before.pending.iter().any(|&(qs, qsz)| (qs, qsz) != (ps, psz) && (qs + qsz == ps || ps + psz == qs));
            if adj {
                self.coalesce_promotions += 1;
                obs.label("promotion-coalesces");
            }
        }
        if !before.pending.is_empty() {
            obs.label("promotion");
        }
    }

    pub fn flush(&mut self, obs: &mut Obs) -> Result<(), String> {
        let before = snapshot_layout(self.db());
        self.db().flush().map_err(|e| format!("flush failed: {e}"))?;
        self.note_promotion(&before, obs);
        self.dirty_since_flush = false;
        obs.label("flush");
        Ok(())
    }

    pub fn reopen(&mut self, obs: &mut Obs) -> Result<(), String> {
        self.handles.clear();
        let db = self.db.take().unwrap();
        let weak = db.weak_clone();
        drop(db);
        let _ = weak;
        let db = Self::open_db(self.dir.path(), self.min_len)?;
        self.db = Some(db);
        // never-written never-renamed regions may be absent
        let names = self.live_names();
        for n in names {
            let m = &self.model[&n];
            if !m.persist && self.db().get_region(&n).is_none() {
                self.model.remove(&n);
            }
        }
        if self.model.len() >= 2 {
            self.reopens_multi += 1;
        }
        obs.label("reopen");
        Ok(())
    }
}

pub fn short(name: &str) -> String {
    if name.len() > 24 { format!("{}…({})", &name[..8], name.len()) } else { name.to_string() }
}
