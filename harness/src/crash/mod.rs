//! E2: durable-image simulator on top of E1, driven by the storage event tap (hook H1).
//!
//! Phase 1 runs a history against the real database with the tap recording every storage event
//! (for memory-map writes: the 4 KiB content of each touched page *after* the write, read back from
//! the real file with pread, so the simulator never trusts its own idea of what was written).
//! Phase 2 replays the event log into a page-versioned "disk" and, at every event index,
//! materialises a family of crash images and opens each with `Database::open`.

use std::collections::{BTreeMap, BTreeSet};
use std::fs::File;
use std::os::unix::fs::FileExt;
use std::path::{Path, PathBuf};
use std::rc::Rc;
use std::sync::{Arc, Mutex};

use rawdb::verif::{Event, FileKind};
use rawdb::{Database, PAGE_SIZE};

use crate::common::runner::catch_panic;
use crate::common::splitmix64;
use crate::rawmodel::{LayoutSnap, Model, short};

pub const PG: usize = 4096;

// ------------------------------------------------------------------ recorder

#[derive(Clone, Debug)]
pub enum Ev {
    Write { file: FileKind, pages: Vec<(usize, Arc<[u8]>)> },
    SetLen { file: FileKind, len: usize },
    Sync { file: FileKind },
    Punch { off: usize, len: usize },
}

struct Rec {
    dir: PathBuf,
    data: Option<File>,
    regions: Option<File>,
    events: Vec<Ev>,
    on: bool,
}

static REC: Mutex<Option<Rec>> = Mutex::new(None);

fn read_page(f: &File, pg: usize) -> Arc<[u8]> {
    let mut buf = vec![0u8; PG];
    let mut got = 0;
    while got < PG {
        match f.read_at(&mut buf[got..], (pg * PG + got) as u64) {
            Ok(0) => break,
            Ok(n) => got += n,
            Err(_) => break,
        }
    }
    buf.into()
}

fn tap(e: &Event) {
    let mut g = REC.lock().unwrap();
    let Some(rec) = g.as_mut() else { return };
    if !rec.on {
        return;
    }
    match *e {
        Event::MmapWrite { file, off, len } => {
            if len == 0 {
                return;
            }
            let slot = match file {
                FileKind::Data => &mut rec.data,
                FileKind::Regions => &mut rec.regions,
            };
            if slot.is_none() {
                let name = if file == FileKind::Data { "data" } else { "regions" };
                *slot = File::open(rec.dir.join(name)).ok();
            }
            let Some(f) = slot.as_ref() else { return };
            let first = off / PG;
            let last = (off + len - 1) / PG;
            let pages = (first..=last).map(|pg| (pg, read_page(f, pg))).collect();
            rec.events.push(Ev::Write { file, pages });
        }
        Event::SetLen { file, len } => rec.events.push(Ev::SetLen { file, len }),
        Event::Sync { file } => rec.events.push(Ev::Sync { file }),
        Event::Punch { off, len } => rec.events.push(Ev::Punch { off, len }),
        Event::FlushAsync { .. } => {}
    }
}

/// Starts recording for the database directory `dir` (the one holding `data` and `regions`).
pub fn start(dir: &Path) {
    *REC.lock().unwrap() = Some(Rec { dir: dir.to_path_buf(), data: None, regions: None, events: vec![], on: true });
    rawdb::verif::set_tap(Some(tap));
}

pub fn count() -> usize {
    REC.lock().unwrap().as_ref().map_or(0, |r| r.events.len())
}

pub fn stop() -> Vec<Ev> {
    rawdb::verif::set_tap(None);
    REC.lock().unwrap().take().map(|r| r.events).unwrap_or_default()
}

// ------------------------------------------------------------------ simulator

#[derive(Default, Clone)]
pub struct PageSim {
    /// None = zeros
    pub durable: Option<Arc<[u8]>>,
    /// contents the page had after events since the last sync of its file
    pub versions: Vec<Arc<[u8]>>,
}

#[derive(Default)]
pub struct FileSim {
    pub len: usize,
    pub pages: BTreeMap<usize, PageSim>,
}

#[derive(Default)]
pub struct Sim {
    pub data: FileSim,
    pub regions: FileSim,
}

fn zeros() -> Arc<[u8]> {
    thread_local! { static Z: Arc<[u8]> = vec![0u8; PG].into(); }
    Z.with(|z| z.clone())
}

fn is_zero(b: &[u8]) -> bool {
    b.iter().all(|&x| x == 0)
}

impl FileSim {
    fn push_version(&mut self, pg: usize, content: Arc<[u8]>) {
        let p = self.pages.entry(pg).or_default();
        let same = match p.versions.last() {
            Some(v) => v[..] == content[..],
            None => match &p.durable {
                Some(d) => d[..] == content[..],
                None => is_zero(&content),
            },
        };
        if !same {
            p.versions.push(content);
        }
    }
    fn sync(&mut self) {
        for p in self.pages.values_mut() {
            if let Some(v) = p.versions.last() {
                p.durable = Some(v.clone());
                p.versions.clear();
            }
        }
    }
}

impl Sim {
    pub fn file(&self, k: FileKind) -> &FileSim {
        match k {
            FileKind::Data => &self.data,
            FileKind::Regions => &self.regions,
        }
    }
    fn file_mut(&mut self, k: FileKind) -> &mut FileSim {
        match k {
            FileKind::Data => &mut self.data,
            FileKind::Regions => &mut self.regions,
        }
    }
    /// true when the event changed what a crash could leave behind
    pub fn apply(&mut self, ev: &Ev) {
        match ev {
            Ev::Write { file, pages } => {
                let f = self.file_mut(*file);
                for (pg, c) in pages {
                    f.push_version(*pg, c.clone());
                }
            }
            Ev::SetLen { file, len } => self.file_mut(*file).len = *len,
            Ev::Sync { file } => self.file_mut(*file).sync(),
            Ev::Punch { off, len } => {
                for pg in off / PG..(off + len).div_ceil(PG) {
                    self.data.push_version(pg, zeros());
                }
            }
        }
    }
    pub fn dirty(&self) -> Vec<(FileKind, usize)> {
        let mut v = vec![];
        for (k, f) in [(FileKind::Regions, &self.regions), (FileKind::Data, &self.data)] {
            for (pg, p) in &f.pages {
                if !p.versions.is_empty() {
                    v.push((k, *pg));
                }
            }
        }
        v
    }
}

/// Which content each dirty page has in an image: 0 = last synced, i>=1 = versions[i-1].
pub type Picks = BTreeMap<(u8, usize), usize>;

fn fk(k: FileKind) -> u8 {
    match k {
        FileKind::Data => 0,
        FileKind::Regions => 1,
    }
}

fn write_file(path: &Path, f: &FileSim, kind: FileKind, picks: &Picks, default_newest: bool) -> std::io::Result<()> {
    let out = File::create(path)?;
    out.set_len(f.len as u64)?;
    for (pg, p) in &f.pages {
        let idx = match picks.get(&(fk(kind), *pg)) {
            Some(i) => *i,
            None => {
                if default_newest {
                    p.versions.len()
                } else {
                    0
                }
            }
        };
        let content: Option<&Arc<[u8]>> = if idx == 0 { p.durable.as_ref() } else { p.versions.get(idx - 1) };
        let Some(c) = content else { continue };
        let off = pg * PG;
        if off >= f.len || is_zero(c) {
            continue;
        }
        let n = PG.min(f.len - off);
        out.write_all_at(&c[..n], off as u64)?;
    }
    Ok(())
}

pub fn materialize(dir: &Path, sim: &Sim, picks: &Picks, default_newest: bool) -> Result<(), String> {
    let _ = std::fs::create_dir_all(dir);
    write_file(&dir.join("data"), &sim.data, FileKind::Data, picks, default_newest).map_err(|e| format!("INCONCLUSIVE: image data: {e}"))?;
    write_file(&dir.join("regions"), &sim.regions, FileKind::Regions, picks, default_newest)
        .map_err(|e| format!("INCONCLUSIVE: image regions: {e}"))?;
    Ok(())
}

// ------------------------------------------------------------------ snapshots of the model

#[derive(Clone, Debug)]
pub struct SRegion {
    pub name: String,
    pub bytes: Rc<Vec<u8>>,
    pub persist: bool,
}

pub type Snap = Rc<BTreeMap<u64, SRegion>>;

pub fn snap_of(model: &Model, prev: &Snap) -> Snap {
    let mut m = BTreeMap::new();
    for (name, r) in model {
        let bytes = match prev.get(&r.uid) {
            Some(p) if *p.bytes == r.bytes => p.bytes.clone(),
            _ => Rc::new(r.bytes.clone()),
        };
        m.insert(r.uid, SRegion { name: name.clone(), bytes, persist: r.persist });
    }
    Rc::new(m)
}

/// regions (by uid) whose name or bytes differ between two snapshots, or that exist in only one
pub fn changed(a: &Snap, b: &Snap) -> BTreeSet<u64> {
    let mut out = BTreeSet::new();
    for (u, ra) in a.iter() {
        match b.get(u) {
            Some(rb) if rb.name == ra.name && (Rc::ptr_eq(&ra.bytes, &rb.bytes) || *ra.bytes == *rb.bytes) => {}
            _ => {
                out.insert(*u);
            }
        }
    }
    for u in b.keys() {
        if !a.contains_key(u) {
            out.insert(*u);
        }
    }
    out
}

/// regions of `s` whose bytes below their length in `s` differ in `now` (overwritten in place)
pub fn overwritten_in_place(s: &Snap, now: &Snap) -> BTreeSet<u64> {
    let mut out = BTreeSet::new();
    for (u, rs) in s.iter() {
        if let Some(rn) = now.get(u) {
            let m = rs.bytes.len().min(rn.bytes.len());
            if rs.bytes[..m] != rn.bytes[..m] {
                out.insert(*u);
            }
        }
    }
    out
}

// ------------------------------------------------------------------ recovered image

pub struct Recovered {
    pub db: Database,
    /// name -> (start, len, reserved)
    pub regions: BTreeMap<String, (usize, usize, usize)>,
    pub file_len: usize,
}

/// Opens an image and checks clause 1 (opens, no panic) and clause 2 (extents aligned, pairwise
/// disjoint, inside the file). Region bytes are only read afterwards (an extent beyond the file
/// would fault).
pub fn open_image(dir: &Path) -> Result<Recovered, String> {
    let db = match catch_panic(|| Database::open(dir)) {
        Err(p) => return Err(format!("Database::open panicked on the crash image: {p}")),
        Ok(Err(e)) => return Err(format!("Database::open failed on the crash image: {e}")),
        Ok(Ok(db)) => db,
    };
    let file_len = std::fs::metadata(dir.join("data")).map(|m| m.len() as usize).unwrap_or(0);
    let mut regions = BTreeMap::new();
    let mut ext: Vec<(usize, usize, String)> = vec![];
    {
        let regs = db.regions();
        for (name, &idx) in regs.id_to_index() {
            let Some(r) = regs.get_from_index(idx) else {
                return Err(format!("recovered name '{}' maps to an empty slot", short(name)));
            };
            let m = r.meta();
            regions.insert(name.clone(), (m.start(), m.len(), m.reserved()));
            ext.push((m.start(), m.reserved(), name.clone()));
        }
    }
    ext.sort();
    for (s, res, name) in &ext {
        if s % PAGE_SIZE != 0 || res % PAGE_SIZE != 0 || *res < PAGE_SIZE {
            return Err(format!("recovered region '{}' has a misaligned extent {s}+{res}", short(name)));
        }
        if s + res > file_len {
            return Err(format!(
                "recovered region '{}' extent {s}+{res} lies beyond the data file ({file_len} bytes)",
                short(name)
            ));
        }
    }
    for w in ext.windows(2) {
        if w[0].0 + w[0].1 > w[1].0 {
            return Err(format!(
                "recovered regions overlap: '{}' at {}+{} and '{}' at {}+{}",
                short(&w[0].2),
                w[0].0,
                w[0].1,
                short(&w[1].2),
                w[1].0,
                w[1].1
            ));
        }
    }
    Ok(Recovered { db, regions, file_len })
}

impl Recovered {
    /// the region named `want.name` must exist with exactly `want`'s length and bytes
    pub fn expect_exact(&self, want: &SRegion, why: &str) -> Result<(), String> {
        let Some(&(_, len, _)) = self.regions.get(&want.name) else {
            return Err(format!("region '{}' ({why}) is missing after recovery", short(&want.name)));
        };
        if len != want.bytes.len() {
            return Err(format!(
                "region '{}' ({why}) recovered with length {len}, expected {}",
                short(&want.name),
                want.bytes.len()
            ));
        }
        let r = self.db.get_region(&want.name).ok_or("get_region failed on recovered name")?;
        let reader = r.create_reader();
        let got = reader.read_all();
        if got != &want.bytes[..] {
            let i = got.iter().zip(want.bytes.iter()).position(|(a, b)| a != b).unwrap_or(0);
            return Err(format!(
                "region '{}' ({why}) recovered with different bytes at offset {i} of {len}: got {:#x} want {:#x}",
                short(&want.name),
                got[i],
                want.bytes[i]
            ));
        }
        Ok(())
    }
}

// ------------------------------------------------------------------ enumeration

#[derive(Clone, Copy, Debug, PartialEq, Eq)]
pub enum OpKind {
    /// Database::flush / compact / flush+reopen: when it returns, "the last completed flush" moves here
    FlushLike,
    Other,
}

pub struct OpRec {
    pub kind: OpKind,
    pub label: String,
    pub evt_start: usize,
    pub evt_end: usize,
    pub before: Snap,
    pub after: Snap,
    pub layout_before: Option<LayoutSnap>,
    pub layout_after: Option<LayoutSnap>,
    pub is_compact: bool,
    pub relocated: bool,
    pub reused_hole: bool,
}

#[derive(Default, Debug)]
pub struct EnumStats {
    pub crash_points: u64,
    pub images: u64,
    pub images_a: u64,
    pub images_flip: u64,
    pub images_random: u64,
    pub clause3_checks: u64,
    pub clause4_checks: u64,
    pub inside_flush: bool,
    pub between_syncs: bool,
    pub after_relocation: bool,
    pub after_hole_reuse: bool,
    pub dirty_with_untouched: bool,
    pub inside_compact: bool,
    pub after_punch_before_sync: bool,
}

pub struct EnumCfg {
    pub max_flip_pages: usize,
    pub random_per_point: usize,
    pub seed: u64,
    /// only crash points at or after this event index (C12: from the first compact on)
    pub from_event: usize,
}

fn flip_subset(dirty: &[(FileKind, usize)], max: usize) -> Vec<(FileKind, usize)> {
    if dirty.len() <= max {
        return dirty.to_vec();
    }
    // every metadata page first, then data pages evenly spread (first and last included)
    let mut out: Vec<(FileKind, usize)> = dirty.iter().copied().filter(|d| d.0 == FileKind::Regions).collect();
    out.truncate(max);
    let data: Vec<(FileKind, usize)> = dirty.iter().copied().filter(|d| d.0 == FileKind::Data).collect();
    let room = max.saturating_sub(out.len());
    if room > 0 && !data.is_empty() {
        if data.len() <= room {
            out.extend(data);
        } else {
            for i in 0..room {
                out.push(data[i * (data.len() - 1) / (room - 1).max(1)]);
            }
            out.dedup();
        }
    }
    out
}

/// Enumerates crash points and image families over a recorded history and applies the C05 recovery
/// oracle (clauses 1-4 of DESIGN.md §3 E2). `img_dir` is reused for every image.
pub fn enumerate(events: &[Ev], ops: &[OpRec], cfg: &EnumCfg, img_dir: &Path, stats: &mut EnumStats) -> Result<(), String> {
    let empty: Snap = Rc::new(BTreeMap::new());
    let mut sim = Sim::default();
    let mut f_snap = empty.clone();
    let mut s_snap = empty.clone();
    let mut touched: BTreeSet<u64> = BTreeSet::new();
    let mut overwritten: BTreeSet<u64> = BTreeSet::new();
    let mut any_flush_done = false;
    let mut relocated_since_flush = false;
    let mut reuse_seen = false;
    let mut rng = cfg.seed;

    for (j, op) in ops.iter().enumerate() {
        let mut data_synced_in_op = false;
        let mut punched_in_op = false;
        for k in op.evt_start..op.evt_end {
            let ev = &events[k];
            sim.apply(ev);
            match ev {
                Ev::Sync { file: FileKind::Regions } => {
                    // the instant the metadata file became durable: S = the model at that moment
                    s_snap = op.before.clone();
                    overwritten.clear();
                }
                Ev::Sync { file: FileKind::Data } => data_synced_in_op = true,
                Ev::Punch { .. } => punched_in_op = true,
                _ => {}
            }
            let last_of_op = k + 1 == op.evt_end;
            // context of a crash right after event k
            let (f_now, touched_now, in_progress) = if last_of_op && op.kind == OpKind::FlushLike {
                (op.after.clone(), BTreeSet::new(), false)
            } else {
                let mut t = touched.clone();
                t.extend(changed(&op.before, &op.after));
                (f_snap.clone(), t, !last_of_op)
            };
            let mut over_now = overwritten.clone();
            over_now.extend(overwritten_in_place(&s_snap, &op.after));
            if k < cfg.from_event {
                continue;
            }
            let dirty = sim.dirty();
            stats.crash_points += 1;
            let flush_completed = any_flush_done || (last_of_op && op.kind == OpKind::FlushLike);
            if op.kind == OpKind::FlushLike && in_progress {
                stats.inside_flush = true;
                if data_synced_in_op && matches!(ev, Ev::Sync { file: FileKind::Data }) {
                    stats.between_syncs = true;
                }
            }
            if op.is_compact && in_progress {
                stats.inside_compact = true;
                if punched_in_op && matches!(ev, Ev::Punch { .. }) {
                    stats.after_punch_before_sync = true;
                }
            }
            if flush_completed && (relocated_since_flush || op.relocated) {
                stats.after_relocation = true;
            }
            if reuse_seen || op.reused_hole {
                stats.after_hole_reuse = true;
            }
            let untouched_exists = f_now.iter().any(|(u, r)| r.persist && !touched_now.contains(u));
            if flush_completed && !dirty.is_empty() && untouched_exists {
                stats.dirty_with_untouched = true;
            }

            // ---- image families
            let mut images: Vec<(Picks, bool, u8)> = vec![]; // picks, default_newest, family
            images.push((Picks::new(), false, b'a'));
            if !dirty.is_empty() {
                images.push((Picks::new(), true, b'b'));
                let flips = flip_subset(&dirty, cfg.max_flip_pages);
                if dirty.len() > 1 {
                    for (fkind, pg) in &flips {
                        let newest = sim.file(*fkind).pages[pg].versions.len();
                        let mut p = Picks::new();
                        p.insert((fk(*fkind), *pg), newest);
                        images.push((p, false, b'c'));
                        let mut q = Picks::new();
                        q.insert((fk(*fkind), *pg), 0);
                        images.push((q, true, b'c'));
                    }
                }
                for _ in 0..cfg.random_per_point {
                    let mut p = Picks::new();
                    for (fkind, pg) in &dirty {
                        rng = splitmix64(rng);
                        let n = sim.file(*fkind).pages[pg].versions.len() + 1;
                        p.insert((fk(*fkind), *pg), (rng % n as u64) as usize);
                    }
                    images.push((p, false, b'd'));
                }
            }
            for (picks, default_newest, fam) in images {
                materialize(img_dir, &sim, &picks, default_newest)?;
                stats.images += 1;
                match fam {
                    b'a' => stats.images_a += 1,
                    b'c' => stats.images_flip += 1,
                    b'd' => stats.images_random += 1,
                    _ => {}
                }
                let describe = || {
                    format!(
                        "crash after storage event #{k} ({}) during/after op #{j} {}; image family ({}) with {} dirty page(s), picks {:?}",
                        ev_name(ev),
                        op.label,
                        fam as char,
                        dirty.len(),
                        picks
                    )
                };
                let rec = open_image(img_dir).map_err(|e| format!("{e} — {}", describe()))?;
                // clause 3: untouched since the last completed flush => exactly as flushed
                for (u, r) in f_now.iter() {
                    if !r.persist || touched_now.contains(u) {
                        continue;
                    }
                    stats.clause3_checks += 1;
                    rec.expect_exact(r, "not modified since the last completed flush").map_err(|e| format!("{e} — {}", describe()))?;
                }
                // clause 4: only the library's own syncs reached the disk
                if fam == b'a' {
                    for (u, r) in s_snap.iter() {
                        if !r.persist || over_now.contains(u) {
                            continue;
                        }
                        stats.clause4_checks += 1;
                        rec.expect_exact(r, "no write-back besides the library's syncs; state when the metadata was last synced")
                            .map_err(|e| format!("{e} — {}", describe()))?;
                    }
                    let s_names: BTreeSet<&String> = s_snap.values().map(|r| &r.name).collect();
                    for n in rec.regions.keys() {
                        if !s_names.contains(n) {
                            return Err(format!(
                                "region '{}' exists after recovery although it did not exist when the metadata was last synced and nothing else reached the disk — {}",
                                short(n),
                                describe()
                            ));
                        }
                    }
                }
                drop(rec);
            }
        }
        // op j completed
        touched.extend(changed(&op.before, &op.after));
        overwritten.extend(overwritten_in_place(&s_snap, &op.after));
        if op.relocated {
            relocated_since_flush = true;
        }
        if op.reused_hole {
            reuse_seen = true;
        }
        if op.kind == OpKind::FlushLike {
            f_snap = op.after.clone();
            touched.clear();
            any_flush_done = true;
            relocated_since_flush = false;
        }
    }
    Ok(())
}

pub fn ev_name(ev: &Ev) -> String {
    match ev {
        Ev::Write { file, pages } => format!("write {:?} pages {:?}", file, pages.iter().map(|p| p.0).collect::<Vec<_>>()),
        Ev::SetLen { file, len } => format!("set_len {file:?} {len}"),
        Ev::Sync { file } => format!("sync {file:?}"),
        Ev::Punch { off, len } => format!("punch {off}+{len}"),
    }
}

/// Parses the *durable* regions-file image: (start, len, reserved) of every valid slot.
pub fn durable_slots(sim: &Sim) -> Vec<(usize, usize, usize)> {
    let mut out = vec![];
    for (pg, p) in &sim.regions.pages {
        if pg * PG >= sim.regions.len {
            continue;
        }
        let Some(d) = &p.durable else { continue };
        let rd = |o: usize| u64::from_le_bytes(d[o..o + 8].try_into().unwrap()) as usize;
        let (start, len, reserved, id_len) = (rd(0), rd(8), rd(16), rd(24));
        if (start == 0 && len == 0 && reserved == 0 && id_len == 0) || id_len > 1024 || reserved < PG || len > reserved {
            continue;
        }
        out.push((start, len, reserved));
    }
    out
}
