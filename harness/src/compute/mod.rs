//! E4: EagerVec compute engine — method table, source histories, from-scratch differential (C06).
//!
//! Every table entry knows how to build valid sources from the shared "world" of stored source
//! vectors, how to call the method, and which sources govern the result's length. The oracle is
//! differential: after EVERY incremental call the result must equal the same method evaluated in
//! one call, with the default batch limit, on a fresh EagerVec over the sources' current contents.

use std::sync::Mutex;

use proptest::prelude::*;
use rawdb::Database;
use serde::{Deserialize, Serialize};
use vecdb::{
    AnyStoredVec, AnyVec, BytesVec, EagerVec, Exit, ImportableVec, PcoVec, Plus, ReadableVec, StoredVec, Version, WritableVec,
};

use crate::common::tmp::Scratch;
use crate::common::{Obs, frac, splitmix64};

// ------------------------------------------------------------------ case

#[derive(Clone, Copy, Debug, Serialize, Deserialize, PartialEq, Eq, PartialOrd, Ord)]
pub enum Method {
    To,
    Range,
    FromIndex,
    Transform,
    Transform2,
    Transform3,
    Transform4,
    Binary,
    Add,
    Subtract,
    Multiply,
    Divide,
    Percentage,
    PercentageDifference,
    Cumulative,
    CumulativeBinary,
    CumulativeTransformedBinary,
    CumulativeCount,
    RollingCount,
    CumulativeCountFrom,
    PreviousValue,
    Change,
    RatioChange,
    PercentageChange,
    RollingRatioChange,
    RollingPercentageChange,
    RollingChange,
    Cagr,
    Lookback,
    Max,
    Min,
    Sum,
    RollingSum,
    RollingMaxFromStarts,
    RollingMinFromStarts,
    RollingMedian,
    AllTimeHigh,
    AllTimeLow,
    AllTimeLowExcl,
    AllTimeHighFrom,
    AllTimeLowFrom,
    Zscore,
    SumOfOthers,
    MinOfOthers,
    MaxOfOthers,
    WeightedAverageOfOthers,
    SumFromIndexes,
    FilteredSumFromIndexes,
    CountFromIndexes,
    FilteredCountFromIndexes,
    IndirectSequential,
    FirstPerIndex,
    // running float state that is resumed exactly (stored precision == running precision)
    Sma,
    SmaFrom,
    Ema,
    EmaFrom,
    Rma,
    RollingEma,
    RollingRma,
    RollingRatioPow2,
}

pub const ALL_METHODS: &[Method] = &[
    Method::To,
    Method::Range,
    Method::FromIndex,
    Method::Transform,
    Method::Transform2,
    Method::Transform3,
    Method::Transform4,
    Method::Binary,
    Method::Add,
    Method::Subtract,
    Method::Multiply,
    Method::Divide,
    Method::Percentage,
    Method::PercentageDifference,
    Method::Cumulative,
    Method::CumulativeBinary,
    Method::CumulativeTransformedBinary,
    Method::CumulativeCount,
    Method::RollingCount,
    Method::CumulativeCountFrom,
    Method::PreviousValue,
    Method::Change,
    Method::RatioChange,
    Method::PercentageChange,
    Method::RollingRatioChange,
    Method::RollingPercentageChange,
    Method::RollingChange,
    Method::Cagr,
    Method::Lookback,
    Method::Max,
    Method::Min,
    Method::Sum,
    Method::RollingSum,
    Method::RollingMaxFromStarts,
    Method::RollingMinFromStarts,
    Method::RollingMedian,
    Method::AllTimeHigh,
    Method::AllTimeLow,
    Method::AllTimeLowExcl,
    Method::AllTimeHighFrom,
    Method::AllTimeLowFrom,
    Method::Zscore,
    Method::SumOfOthers,
    Method::MinOfOthers,
    Method::MaxOfOthers,
    Method::WeightedAverageOfOthers,
    Method::SumFromIndexes,
    Method::FilteredSumFromIndexes,
    Method::CountFromIndexes,
    Method::FilteredCountFromIndexes,
    Method::IndirectSequential,
    Method::FirstPerIndex,
    Method::Sma,
    Method::SmaFrom,
    Method::Ema,
    Method::EmaFrom,
    Method::Rma,
    Method::RollingEma,
    Method::RollingRma,
    Method::RollingRatioPow2,
];

impl Method {
    pub fn name(self) -> &'static str {
        // leaked once per method (evidence labels need 'static)
        static NAMES: Mutex<Vec<(Method, &'static str)>> = Mutex::new(vec![]);
        let mut g = NAMES.lock().unwrap();
        if let Some((_, n)) = g.iter().find(|(m, _)| *m == self) {
            return n;
        }
        let n: &'static str = Box::leak(format!("method:{self:?}").into_boxed_str());
        g.push((self, n));
        n
    }
    /// lives in the group world (coarse index over a finer source)
    pub fn grouped(self) -> bool {
        matches!(
            self,
            Method::SumFromIndexes | Method::FilteredSumFromIndexes | Method::CountFromIndexes | Method::FilteredCountFromIndexes | Method::FirstPerIndex
        )
    }
}

#[derive(Clone, Copy, Debug, Serialize, Deserialize)]
pub enum Change {
    /// a redundant call: nothing changed
    None,
    /// every source grows by n (+ a per-source skew, so lengths become unequal)
    Grow { n: u8, skew: [u8; 3] },
    /// every source is truncated at `at` (fraction of its length) and regrown with different data
    Regrow { at: u16, n: u8 },
}

#[derive(Clone, Copy, Debug, Serialize, Deserialize)]
pub enum MfSel {
    /// exactly the first changed source index
    AtChange,
    Minus(u8),
    Frac(u16),
    Zero,
}

#[derive(Clone, Copy, Debug, Serialize, Deserialize, PartialEq, Eq)]
pub enum BatchSel {
    Default,
    K1,
    K3,
    K17,
}

#[derive(Clone, Copy, Debug, Serialize, Deserialize)]
pub struct Step {
    pub change: Change,
    pub max_from: MfSel,
    pub batch: BatchSel,
    /// flush + drop + import again (same name and version) before the next step
    pub reimport: bool,
}

#[derive(Clone, Copy, Debug, Serialize, Deserialize, PartialEq, Eq)]
pub enum Family {
    Raw,
    Pco,
}

#[derive(Clone, Copy, Debug, Serialize, Deserialize)]
pub enum WindowSel {
    W0,
    W1,
    W2,
    W5,
    LenMinus1,
    Len,
    LenPlus5,
    Max,
}

#[derive(Clone, Debug, Serialize, Deserialize)]
pub struct Case {
    pub method: Method,
    pub family: Family,
    pub seed: u64,
    pub initial: u8,
    pub window: WindowSel,
    pub from_sel: u16,
    pub steps: Vec<Step>,
    /// sources start with ~4100 elements (beyond one 4096-element cursor chunk)
    #[serde(default)]
    pub big: bool,
}

impl Case {
    pub fn initial_len(&self) -> usize {
        if self.big { 4060 + self.initial as usize } else { self.initial as usize }
    }
}

pub fn step_strategy() -> impl Strategy<Value = Step> {
    (
        prop_oneof![
            1 => Just(Change::None),
            5 => (0u8..40, [0u8..4, 0u8..4, 0u8..4]).prop_map(|(n, skew)| Change::Grow { n, skew }),
            3 => (any::<u16>(), 0u8..40).prop_map(|(at, n)| Change::Regrow { at, n }),
        ],
        prop_oneof![4 => Just(MfSel::AtChange), 2 => (1u8..4).prop_map(MfSel::Minus), 2 => any::<u16>().prop_map(MfSel::Frac), 1 => Just(MfSel::Zero)],
        prop_oneof![3 => Just(BatchSel::Default), 2 => Just(BatchSel::K1), 2 => Just(BatchSel::K3), 1 => Just(BatchSel::K17)],
        prop::bool::weighted(0.2),
    )
        .prop_map(|(change, max_from, batch, reimport)| Step { change, max_from, batch, reimport })
}

pub fn window_strategy() -> impl Strategy<Value = WindowSel> {
    prop_oneof![
        Just(WindowSel::W0),
        Just(WindowSel::W1),
        Just(WindowSel::W2),
        Just(WindowSel::W5),
        Just(WindowSel::W5),
        Just(WindowSel::LenMinus1),
        Just(WindowSel::Len),
        Just(WindowSel::LenPlus5),
        Just(WindowSel::Max),
    ]
}

// ------------------------------------------------------------------ values

pub trait OutVal: vecdb::VecValue {
    fn same(&self, o: &Self) -> bool;
}
macro_rules! out_int { ($($t:ty),*) => {$( impl OutVal for $t { fn same(&self, o: &Self) -> bool { self == o } } )*}; }
out_int!(u32, u64, i64, usize);
impl OutVal for f32 {
    fn same(&self, o: &Self) -> bool {
        self.to_bits() == o.to_bits() || (self.is_nan() && o.is_nan())
    }
}
impl OutVal for f64 {
    fn same(&self, o: &Self) -> bool {
        self.to_bits() == o.to_bits() || (self.is_nan() && o.is_nan())
    }
}

pub trait GenVal: Sized + Clone {
    fn genv(kind: u8, seed: u64, i: usize) -> Self;
}
impl GenVal for u32 {
    fn genv(kind: u8, seed: u64, i: usize) -> u32 {
        let h = splitmix64(seed ^ (i as u64).wrapping_mul(0x9E37_79B9_7F4A_7C15) ^ ((kind as u64) << 56));
        match kind {
            // non-zero (divisors)
            1 => (h % 997) as u32 + 1,
            // small counts
            2 => (h % 4) as u32,
            // zero or a power of two (divisions by it, and multiplications back, are exact in f64)
            4 => [0u32, 1, 1, 2, 4, 8, 1, 2][(h % 8) as usize],
            _ => match h % 8 {
                0 => 0,
                1 => 1,
                _ => (h >> 20) as u32 % 100_000,
            },
        }
    }
}
impl GenVal for u16 {
    fn genv(kind: u8, seed: u64, i: usize) -> u16 {
        u32::genv(kind, seed, i) as u16
    }
}
impl GenVal for u64 {
    fn genv(kind: u8, seed: u64, i: usize) -> u64 {
        let h = splitmix64(seed ^ (i as u64).wrapping_mul(0xD6E8_FEB8_6659_FD93) ^ ((kind as u64) << 56));
        match kind {
            1 => h % 1000 + 1,
            // "big": always above every small value
            3 => (1 << 40) + (h % (1 << 20)),
            _ => match h % 8 {
                0 => 0,
                _ => h % (1 << 20),
            },
        }
    }
}
impl GenVal for f32 {
    fn genv(kind: u8, seed: u64, i: usize) -> f32 {
        let h = splitmix64(seed ^ (i as u64).wrapping_mul(0xA24B_AED4_963E_E407) ^ ((kind as u64) << 56));
        match h % 10 {
            0 => 0.0,
            1 => -1.5,
            _ => ((h >> 16) % 20_000) as f32 * 0.25 - 1000.0,
        }
    }
}
impl GenVal for f64 {
    fn genv(kind: u8, seed: u64, i: usize) -> f64 {
        f32::genv(kind, seed, i) as f64 * 1.5
    }
}

pub struct Src<V: StoredVec<I = usize>> {
    pub v: V,
    pub m: Vec<V::T>,
    kind: u8,
    salt: u64,
}

impl<V: StoredVec<I = usize>> Src<V>
where
    V::T: GenVal,
{
    fn new(db: &Database, name: &str, kind: u8, salt: u64) -> Result<Self, String> {
        let v = V::forced_import(db, name, Version::ONE).map_err(|e| format!("import source {name}: {e}"))?;
        Ok(Self { v, m: vec![], kind, salt })
    }
    pub fn len(&self) -> usize {
        self.m.len()
    }
    fn grow(&mut self, n: usize, seed: u64) -> Result<(), String> {
        for _ in 0..n {
            let val = V::T::genv(self.kind, seed ^ self.salt, self.m.len());
            self.v.push(val.clone());
            self.m.push(val);
        }
        self.v.write().map_err(|e| format!("source write: {e}"))?;
        Ok(())
    }
    fn truncate(&mut self, at: usize) -> Result<(), String> {
        let at = at.min(self.m.len());
        self.v.truncate_if_needed_at(at).map_err(|e| format!("source truncate: {e}"))?;
        self.v.write().map_err(|e| format!("source write: {e}"))?;
        self.m.truncate(at);
        Ok(())
    }
}

/// usize-valued source with explicit contents (window starts, first indexes, keys)
pub struct USrc {
    pub v: BytesVec<usize, usize>,
    pub m: Vec<usize>,
}

impl USrc {
    fn new(db: &Database, name: &str) -> Result<Self, String> {
        Ok(Self { v: BytesVec::forced_import(db, name, Version::ONE).map_err(|e| format!("import {name}: {e}"))?, m: vec![] })
    }
    fn set_tail(&mut self, at: usize, tail: &[usize]) -> Result<(), String> {
        let at = at.min(self.m.len());
        self.v.truncate_if_needed_at(at).map_err(|e| format!("truncate: {e}"))?;
        self.m.truncate(at);
        for &x in tail {
            self.v.push(x);
            self.m.push(x);
        }
        self.v.write().map_err(|e| format!("write: {e}"))?;
        Ok(())
    }
}

/// A source that counts how often it is read and gives up (panics) beyond a budget: turns a
/// computation that never finishes into a reportable failure instead of a hang.
pub struct Counted<'a, V> {
    pub inner: &'a V,
    pub reads: std::sync::atomic::AtomicUsize,
    pub budget: usize,
}

pub const NONTERMINATION: &str = "the computation did not finish: source read budget exhausted";

impl<'a, V> Counted<'a, V> {
    fn tick(&self) {
        if self.reads.fetch_add(1, std::sync::atomic::Ordering::Relaxed) >= self.budget {
            panic!("{NONTERMINATION}");
        }
    }
}

impl<'a, V: AnyVec> AnyVec for Counted<'a, V> {
    fn version(&self) -> Version {
        self.inner.version()
    }
    fn name(&self) -> &str {
        self.inner.name()
    }
    fn len(&self) -> usize {
        self.inner.len()
    }
    fn index_type_to_string(&self) -> &'static str {
        self.inner.index_type_to_string()
    }
    fn region_names(&self) -> Vec<String> {
        self.inner.region_names()
    }
    fn value_type_to_size_of(&self) -> usize {
        self.inner.value_type_to_size_of()
    }
    fn value_type_to_string(&self) -> &'static str {
        self.inner.value_type_to_string()
    }
}

impl<'a, I: vecdb::VecIndex, T: vecdb::VecValue, V: ReadableVec<I, T>> ReadableVec<I, T> for Counted<'a, V> {
    fn read_into_at(&self, from: usize, to: usize, buf: &mut Vec<T>) {
        self.tick();
        self.inner.read_into_at(from, to, buf)
    }
    fn for_each_range_dyn_at(&self, from: usize, to: usize, f: &mut dyn FnMut(T)) {
        self.tick();
        self.inner.for_each_range_dyn_at(from, to, f)
    }
    fn fold_range_at<B, F: FnMut(B, T) -> B>(&self, from: usize, to: usize, init: B, f: F) -> B {
        self.tick();
        self.inner.fold_range_at(from, to, init, f)
    }
    fn try_fold_range_at<B, E, F: FnMut(B, T) -> std::result::Result<B, E>>(&self, from: usize, to: usize, init: B, f: F) -> std::result::Result<B, E> {
        self.tick();
        self.inner.try_fold_range_at(from, to, init, f)
    }
}

static NAME_SEQ: std::sync::atomic::AtomicU64 = std::sync::atomic::AtomicU64::new(0);

fn set_batch<T>(b: BatchSel) {
    let sz = std::mem::size_of::<T>().max(1);
    rawdb::verif::set_max_cache_size(match b {
        BatchSel::Default => None,
        BatchSel::K1 => Some(sz),
        BatchSel::K3 => Some(3 * sz),
        BatchSel::K17 => Some(17 * sz),
    });
}

fn batch_k(b: BatchSel) -> usize {
    match b {
        BatchSel::Default => usize::MAX,
        BatchSel::K1 => 1,
        BatchSel::K3 => 3,
        BatchSel::K17 => 17,
    }
}

macro_rules! compute_family {
    ($modname:ident, $SV:ident) => {
        pub mod $modname {
            use super::*;
            use vecdb::$SV;

            type SV<T> = $SV<usize, T>;

            pub struct World {
                pub db: Database,
                pub a: Src<SV<u32>>,
                pub b: Src<SV<u32>>,
                pub c: Src<SV<u32>>,
                /// non-zero u32
                pub bn: Src<SV<u32>>,
                /// zero or a power of two
                pub pw: Src<SV<u32>>,
                pub x: Src<SV<u64>>,
                pub y: Src<SV<u64>>,
                pub z: Src<SV<u64>>,
                /// non-zero u64
                pub nz: Src<SV<u64>>,
                /// above every value of x/y/z
                pub big: Src<SV<u64>>,
                pub f: Src<SV<f32>>,
                pub g: Src<SV<f32>>,
                /// non-zero f32-ish (sd)
                pub h: Src<SV<f32>>,
                pub d1: Src<SV<f64>>,
                pub d2: Src<SV<f64>>,
                /// window starts: monotone, starts[i] <= i
                pub starts: USrc,
                /// monotone keys into x (with duplicates)
                pub keys: USrc,
                // group world: coarse index -> range of the fine source
                pub first: USrc,
                pub counts: Src<SV<u16>>,
                pub fine: Src<SV<u64>>,
                /// fine index -> coarse index (monotone, for first_per_index)
                pub f2c: USrc,
                pub seed: u64,
                pub gen_no: u64,
                /// coarse / fine index of the first change made by the last change to the group world
                pub last_group_change: usize,
                pub last_fine_change: usize,
            }

            impl World {
                pub fn new(dir: &Scratch, seed: u64) -> Result<Self, String> {
                    let db = Database::open(&dir.path().join("db")).map_err(|e| format!("open: {e}"))?;
                    Ok(World {
                        a: Src::new(&db, "a", 0, 1)?,
                        b: Src::new(&db, "b", 0, 2)?,
                        c: Src::new(&db, "c", 0, 3)?,
                        bn: Src::new(&db, "bn", 1, 4)?,
                        pw: Src::new(&db, "pw", 4, 17)?,
                        x: Src::new(&db, "x", 0, 5)?,
                        y: Src::new(&db, "y", 0, 6)?,
                        z: Src::new(&db, "z", 0, 7)?,
                        nz: Src::new(&db, "nz", 1, 8)?,
                        big: Src::new(&db, "big", 3, 9)?,
                        f: Src::new(&db, "f", 0, 10)?,
                        g: Src::new(&db, "g", 0, 11)?,
                        h: Src::new(&db, "h", 0, 12)?,
                        d1: Src::new(&db, "d1", 0, 13)?,
                        d2: Src::new(&db, "d2", 0, 14)?,
                        starts: USrc::new(&db, "starts")?,
                        keys: USrc::new(&db, "keys")?,
                        first: USrc::new(&db, "first")?,
                        counts: Src::new(&db, "counts", 2, 15)?,
                        fine: Src::new(&db, "fine", 0, 16)?,
                        f2c: USrc::new(&db, "f2c")?,
                        db,
                        seed,
                        gen_no: 0,
                        last_group_change: 0,
                        last_fine_change: 0,
                    })
                }

                pub fn grow_initial(&mut self, n: usize) -> Result<(), String> {
                    let mut left = n;
                    let mut first = true;
                    while left > 0 || first {
                        let k = left.min(200);
                        self.change(Change::Grow { n: k as u8, skew: if first { [0, 1, 2] } else { [0, 0, 0] } })?;
                        left -= k;
                        first = false;
                    }
                    Ok(())
                }

                /// shortest same-index source
                pub fn min_len(&self) -> usize {
                    [
                        self.a.len(), self.b.len(), self.c.len(), self.bn.len(), self.pw.len(), self.x.len(), self.y.len(), self.z.len(), self.nz.len(),
                        self.big.len(), self.f.len(), self.g.len(), self.h.len(), self.d1.len(), self.d2.len(), self.starts.m.len(), self.keys.m.len(),
                    ]
                    .into_iter()
                    .min()
                    .unwrap()
                }

                /// window starts: monotone non-decreasing, starts[i] <= i
                fn starts_tail(&self, from: usize, to: usize) -> Vec<usize> {
                    let mut st = vec![];
                    let mut prev = if from > 0 { self.starts.m[from - 1] } else { 0 };
                    for i in from..to {
                        let h = splitmix64(self.seed ^ self.gen_no.wrapping_mul(77) ^ (i as u64) << 8 ^ 0x57);
                        let s = match h % 4 {
                            0 => prev,
                            1 => i,
                            _ => prev + (h >> 8) as usize % (i - prev + 1),
                        };
                        prev = s.max(prev).min(i);
                        st.push(prev);
                    }
                    st
                }

                /// keys: monotone with duplicates, below len(x)
                fn keys_tail(&self, from: usize, to: usize) -> Vec<usize> {
                    let mut ks = vec![];
                    let mut pk = if from > 0 { self.keys.m[from - 1] } else { 0 };
                    let xl = self.x.len().max(1);
                    for i in from..to {
                        let h = splitmix64(self.seed ^ self.gen_no.wrapping_mul(131) ^ (i as u64) << 8 ^ 0x4B);
                        let step = match h % 4 {
                            0 => 0,
                            1 => 1,
                            _ => (h >> 8) as usize % 3,
                        };
                        pk = (pk + step).min(xl - 1);
                        ks.push(pk);
                    }
                    ks
                }

                /// Applies a change to every same-index source; returns the first changed index.
                pub fn change(&mut self, ch: Change) -> Result<Option<usize>, String> {
                    self.gen_no += 1;
                    let seed = self.seed ^ self.gen_no.wrapping_mul(0x1234_5678_9ABC);
                    let old_min = self.min_len();
                    match ch {
                        Change::None => Ok(None),
                        Change::Grow { n, skew } => {
                            let n = n as usize;
                            macro_rules! g { ($s:expr, $k:expr) => { $s.grow(n + skew[$k % 3] as usize, seed)? }; }
                            g!(self.a, 0); g!(self.b, 1); g!(self.c, 2); g!(self.bn, 0); g!(self.pw, 1);
                            g!(self.x, 1); g!(self.y, 2); g!(self.z, 0); g!(self.nz, 1); g!(self.big, 2);
                            g!(self.f, 0); g!(self.g, 1); g!(self.h, 2); g!(self.d1, 0); g!(self.d2, 1);
                            let to = self.starts.m.len() + n + skew[2] as usize;
                            let from = self.starts.m.len();
                            let st = self.starts_tail(from, to);
                            self.starts.set_tail(from, &st)?;
                            let kfrom = self.keys.m.len();
                            let kto = kfrom + n + skew[0] as usize;
                            let ks = self.keys_tail(kfrom, kto);
                            // keys must stay below len(x) and monotone
                            self.keys.set_tail(kfrom, &ks[..])?;
                            self.grow_groups(n / 3 + 1, seed)?;
                            Ok(Some(old_min))
                        }
                        Change::Regrow { at, n } => {
                            let at = frac(at, old_min);
                            let n = n as usize;
                            macro_rules! r { ($s:expr) => {{ $s.truncate(at)?; $s.grow(n, seed)?; }}; }
                            r!(self.a); r!(self.b); r!(self.c); r!(self.bn); r!(self.pw);
                            r!(self.x); r!(self.y); r!(self.z); r!(self.nz); r!(self.big);
                            r!(self.f); r!(self.g); r!(self.h); r!(self.d1); r!(self.d2);
                            self.starts.set_tail(at, &[])?;
                            self.keys.set_tail(at, &[])?;
                            let st = self.starts_tail(at, at + n);
                            self.starts.set_tail(at, &st)?;
                            let ks = self.keys_tail(at, at + n);
                            self.keys.set_tail(at, &ks)?;
                            let g = frac((at as u64 % 65536) as u16, self.first.m.len());
                            self.regrow_groups(g, n / 3 + 1, seed)?;
                            Ok(Some(at))
                        }
                    }
                }

                fn grow_groups(&mut self, k: usize, seed: u64) -> Result<(), String> {
                    self.last_group_change = self.first.m.len();
                    self.last_fine_change = self.f2c.m.len();
                    self.append_groups(k, seed)
                }

                fn append_groups(&mut self, k: usize, seed: u64) -> Result<(), String> {
                    let mut firsts = vec![];
                    let from_g = self.first.m.len();
                    for gi in 0..k {
                        let cnt = u16::genv(2, seed ^ 0xC0, from_g + gi) as usize;
                        firsts.push(self.fine.len());
                        // counts and fine grow together
                        self.counts.v.push(cnt as u16);
                        self.counts.m.push(cnt as u16);
                        self.fine.grow(cnt, seed)?;
                    }
                    self.counts.v.write().map_err(|e| format!("counts write: {e}"))?;
                    let at = self.first.m.len();
                    self.first.set_tail(at, &firsts)?;
                    // fine -> coarse mapping
                    let mut tail = vec![];
                    for (j, &f0) in firsts.iter().enumerate() {
                        let cnt = self.counts.m[from_g + j] as usize;
                        let _ = f0;
                        for _ in 0..cnt {
                            tail.push(from_g + j);
                        }
                    }
                    let at = self.f2c.m.len();
                    self.f2c.set_tail(at, &tail)?;
                    Ok(())
                }

                fn regrow_groups(&mut self, g: usize, k: usize, seed: u64) -> Result<(), String> {
                    let g = g.min(self.first.m.len());
                    let fine_at = if g < self.first.m.len() { self.first.m[g] } else { self.fine.len() };
                    self.first.set_tail(g, &[])?;
                    self.counts.truncate(g)?;
                    self.fine.truncate(fine_at)?;
                    self.f2c.set_tail(fine_at, &[])?;
                    self.last_group_change = g;
                    self.last_fine_change = fine_at;
                    self.append_groups(k, seed)
                }
            }

            /// Runs one history for a method whose result vector is `EagerVec<E>`.
            #[allow(clippy::too_many_arguments)]
            pub fn drive<E>(
                case: &Case,
                w: &mut World,
                obs: &mut Obs,
                grouped: bool,
                governed: &dyn Fn(&World) -> usize,
                // maps the first changed source index to the first result index that depends on it
                // (identity unless the method reads its source through an indirection)
                adjust: &dyn Fn(&World, usize) -> usize,
                // closed formula over the model sources, where the method documents one
                naive: Option<&dyn Fn(&World) -> Vec<E::T>>,
                call: &dyn Fn(&mut EagerVec<E>, &World, usize, &Exit) -> vecdb::Result<()>,
            ) -> Result<(), String>
            where
                E: StoredVec<I = usize>,
                E::T: OutVal,
            {
                let exit = Exit::new();
                let name = format!("out{}", NAME_SEQ.fetch_add(1, std::sync::atomic::Ordering::Relaxed));
                let mut out: EagerVec<E> = EagerVec::forced_import(&w.db, &name, Version::ONE).map_err(|e| format!("import result: {e}"))?;
                w.grow_initial(case.initial_len())?;
                let mut first = true;
                let mut resumed = false;
                let mut crossed_batch = false;
                for (si, step) in case.steps.iter().enumerate() {
                    let changed_at = if first { Some(0) } else { w.change(step.change)? };
                    first = false;
                    // the starting index the caller passes: never beyond the first changed source index
                    let bound = match changed_at {
                        Some(c) if !grouped => adjust(w, c),
                        None => out.len(),
                        // group world: the coarse index of the first group that was appended / regrown
                        Some(_) => grouped_bound(w, &out, changed_at),
                    };
                    let mf = match step.max_from {
                        MfSel::AtChange => bound,
                        MfSel::Minus(k) => bound.saturating_sub(k as usize),
                        MfSel::Frac(f) => frac(f, bound),
                        MfSel::Zero => 0,
                    };
                    let len_before = out.len();
                    set_batch::<E::T>(step.batch);
                    let r = crate::common::runner::catch_panic(|| call(&mut out, w, mf, &exit));
                    set_batch::<E::T>(BatchSel::Default);
                    let r = match r {
                        Ok(r) => r,
                        Err(p) => {
                            // a panic only counts when the same method evaluated from scratch on the same sources works
                            let rname = format!("ref{}", NAME_SEQ.fetch_add(1, std::sync::atomic::Ordering::Relaxed));
                            let mut fresh: EagerVec<E> = EagerVec::forced_import(&w.db, &rname, Version::ONE).map_err(|e| format!("import ref: {e}"))?;
                            let ok = matches!(crate::common::runner::catch_panic(|| call(&mut fresh, w, 0, &exit)), Ok(Ok(())));
                            if !ok {
                                obs.label("undefined-for-these-inputs(both-panic)");
                                return Ok(());
                            }
                            return Err(format!(
                                "{:?} [{:?}] step #{si} {step:?}: the incremental call panicked (max_from {mf}, result length before {len_before}) although the same method evaluated from scratch succeeds: {p}",
                                case.method, case.family
                            ));
                        }
                    };
                    if let Err(e) = r {
                        // a refusal (e.g. Underflow for window 0): not a mismatch; the history ends here
                        obs.label("refused-by-method");
                        let _ = e;
                        return Ok(());
                    }
                    let want_len = governed(w);
                    let start = mf.min(len_before);
                    if start > 0 && want_len > start {
                        resumed = true;
                    }
                    if want_len > start && want_len - start > batch_k(step.batch) {
                        crossed_batch = true;
                    }
                    // ---- oracle: the same method from scratch, one call, default batch limit
                    let rname = format!("ref{}", NAME_SEQ.fetch_add(1, std::sync::atomic::Ordering::Relaxed));
                    let mut fresh: EagerVec<E> = EagerVec::forced_import(&w.db, &rname, Version::ONE).map_err(|e| format!("import ref: {e}"))?;
                    match crate::common::runner::catch_panic(|| call(&mut fresh, w, 0, &exit)) {
                        Ok(Ok(())) => {}
                        Ok(Err(_)) | Err(_) => {
                            // the from-scratch evaluation itself is refused/undefined for these inputs
                            obs.label("reference-refused");
                            let _ = fresh.remove();
                            return Ok(());
                        }
                    }
                    let (got, want) = (out.collect(), fresh.collect());
                    let _ = fresh.remove();
                    let ctx = || {
                        format!(
                            "{:?} [{:?}] step #{si} {step:?}: max_from {mf}, result length before the call {len_before}, sources' shortest length {}",
                            case.method,
                            case.family,
                            w.min_len()
                        )
                    };
                    if got.len() != want.len() {
                        return Err(format!("{}: incremental result has {} elements, from scratch gives {}", ctx(), got.len(), want.len()));
                    }
                    if want.len() != want_len {
                        return Err(format!("{}: from-scratch result has {} elements, the governing sources give {want_len}", ctx(), want.len()));
                    }
                    for (i, (g, x)) in got.iter().zip(&want).enumerate() {
                        if !g.same(x) {
                            return Err(format!("{}: element {i} is {g:?} after the incremental call, {x:?} from scratch", ctx()));
                        }
                    }
                    if let Some(nv) = naive {
                        let formula = nv(w);
                        if formula.len() != want.len() {
                            return Err(format!("{}: from-scratch result has {} elements, the documented formula gives {}", ctx(), want.len(), formula.len()));
                        }
                        for (i, (g, x)) in want.iter().zip(&formula).enumerate() {
                            if !g.same(x) {
                                return Err(format!("{}: element {i} of the from-scratch result is {g:?}, the documented formula gives {x:?}", ctx()));
                            }
                        }
                        obs.label("formula-checked");
                    }
                    if step.reimport {
                        out.flush().map_err(|e| format!("flush: {e}"))?;
                        drop(out);
                        out = EagerVec::import(&w.db, &name, Version::ONE).map_err(|e| format!("{}: re-import of the result failed: {e}", ctx()))?;
                        let again = out.collect();
                        if again.len() != want.len() || again.iter().zip(&want).any(|(a, b)| !a.same(b)) {
                            return Err(format!("{}: result changed across flush + re-import", ctx()));
                        }
                        obs.label("reimported");
                    }
                }
                if resumed {
                    obs.label("resumed-at-index>0");
                }
                if crossed_batch {
                    obs.label("batch-boundary-inside-a-call");
                }
                if resumed && crossed_batch {
                    obs.set_nontrivial();
                }
                Ok(())
            }

            /// first coarse index whose fine range may have changed = number of leading groups whose
            /// (first index, count) are still what the stored result was computed from; conservative:
            /// the group world only appends groups or truncates at a group and regrows
            fn grouped_bound<E: StoredVec<I = usize>>(w: &World, out: &EagerVec<E>, changed_at: Option<usize>) -> usize {
                match changed_at {
                    None => out.len(),
                    Some(_) => w.last_group_change.min(out.len()),
                }
            }

            /// window / `from` parameters are fixed for the whole history (resolved against the initial fill)
            fn window(case: &Case, _w: &World) -> usize {
                let l = case.initial_len();
                match case.window {
                    WindowSel::W0 => 0,
                    WindowSel::W1 => 1,
                    WindowSel::W2 => 2,
                    WindowSel::W5 => 5,
                    WindowSel::LenMinus1 => l.saturating_sub(1),
                    WindowSel::Len => l,
                    WindowSel::LenPlus5 => l + 5,
                    WindowSel::Max => usize::MAX,
                }
            }

            pub fn run(case: &Case, obs: &mut Obs) -> Result<(), String> {
                let dir = Scratch::new("c06");
                let mut w = World::new(&dir, case.seed)?;
                let fs = case.from_sel;
                let c2 = case.clone();
                let win = move |w: &World| window(&c2, w);
                let min2 = |a: usize, b: usize| a.min(b);
                let r = match case.method {
                    Method::To => drive::<SV<u64>>(case, &mut w, obs, false, &|w| w.x.len(), &|_w, c| c, None, &|e, w, mf, x| {
                        e.compute_to(mf, w.x.len(), Version::ONE, |i| (i, (i as u64).wrapping_mul(0x9E37) ^ 5), x)
                    }),
                    Method::Range => drive::<SV<u64>>(case, &mut w, obs, false, &|w| w.a.len(), &|_w, c| c, None, &|e, w, mf, x| {
                        e.compute_range(mf, &w.a.v, |i| (i, i as u64 * 3 + 1), x)
                    }),
                    Method::FromIndex => drive::<BytesVec<usize, usize>>(case, &mut w, obs, false, &|w| w.b.len(), &|_w, c| c, None, &|e, w, mf, x| e.compute_from_index(mf, &w.b.v, x)),
                    Method::Transform => drive::<SV<u64>>(case, &mut w, obs, false, &|w| w.a.len(), &|_w, c| c, None, &|e, w, mf, x| {
                        e.compute_transform(mf, &w.a.v, |(i, v, ..)| (i, v as u64 * 7 + i as u64), x)
                    }),
                    Method::Transform2 => drive::<SV<u64>>(case, &mut w, obs, false, &|w| min2(w.a.len(), w.x.len()), &|_w, c| c, None, &|e, w, mf, x| {
                        e.compute_transform2(mf, &w.a.v, &w.x.v, |(i, a, b, ..)| (i, (a as u64).wrapping_mul(31) ^ b.rotate_left(3) ^ i as u64), x)
                    }),
                    Method::Transform3 => drive::<SV<u64>>(case, &mut w, obs, false, &|w| w.a.len().min(w.x.len()).min(w.b.len()), &|_w, c| c, None, &|e, w, mf, x| {
                        e.compute_transform3(mf, &w.a.v, &w.x.v, &w.b.v, |(i, a, b, c, ..)| (i, a as u64 + b * 3 + c as u64 * 5 + i as u64), x)
                    }),
                    Method::Transform4 => drive::<SV<u64>>(case, &mut w, obs, false, &|w| w.a.len().min(w.x.len()).min(w.b.len()).min(w.y.len()), &|_w, c| c, None, &|e, w, mf, x| {
                        e.compute_transform4(mf, &w.a.v, &w.x.v, &w.b.v, &w.y.v, |(i, a, b, c, d, ..)| (i, a as u64 + b * 3 + c as u64 * 5 + d * 7 + i as u64), x)
                    }),
                    Method::Binary => drive::<SV<u64>>(case, &mut w, obs, false, &|w| min2(w.x.len(), w.y.len()), &|_w, c| c, None, &|e, w, mf, x| {
                        e.compute_binary::<u64, u64, Plus>(mf, &w.x.v, &w.y.v, x)
                    }),
                    Method::Add => drive::<SV<u64>>(case, &mut w, obs, false, &|w| min2(w.x.len(), w.y.len()), &|_w, c| c, Some(&|w: &World| w.x.m.iter().zip(&w.y.m).map(|(a, b)| a + b).collect::<Vec<u64>>()), &|e, w, mf, x| e.compute_add(mf, &w.x.v, &w.y.v, x)),
                    Method::Subtract => drive::<SV<u64>>(case, &mut w, obs, false, &|w| min2(w.big.len(), w.y.len()), &|_w, c| c, Some(&|w: &World| w.big.m.iter().zip(&w.y.m).map(|(a, b)| a - b).collect::<Vec<u64>>()), &|e, w, mf, x| e.compute_subtract(mf, &w.big.v, &w.y.v, x)),
                    Method::Multiply => drive::<SV<u64>>(case, &mut w, obs, false, &|w| min2(w.a.len(), w.y.len()), &|_w, c| c, Some(&|w: &World| w.a.m.iter().zip(&w.y.m).map(|(a, b)| *a as u64 * b).collect::<Vec<u64>>()), &|e, w, mf, x| e.compute_multiply(mf, &w.a.v, &w.y.v, x)),
                    Method::Divide => drive::<SV<u64>>(case, &mut w, obs, false, &|w| min2(w.a.len(), w.nz.len()), &|_w, c| c, Some(&|w: &World| w.a.m.iter().zip(&w.nz.m).map(|(a, b)| *a as u64 / b).collect::<Vec<u64>>()), &|e, w, mf, x| e.compute_divide(mf, &w.a.v, &w.nz.v, x)),
                    Method::Percentage => drive::<SV<u64>>(case, &mut w, obs, false, &|w| min2(w.a.len(), w.bn.len()), &|_w, c| c, None, &|e, w, mf, x| e.compute_percentage(mf, &w.a.v, &w.bn.v, x)),
                    Method::PercentageDifference => drive::<SV<i64>>(case, &mut w, obs, false, &|w| min2(w.a.len(), w.bn.len()), &|_w, c| c, None, &|e, w, mf, x| {
                        e.compute_percentage_difference(mf, &w.a.v, &w.bn.v, x)
                    }),
                    Method::Cumulative => drive::<SV<u64>>(case, &mut w, obs, false, &|w| w.a.len(), &|_w, c| c, Some(&|w: &World| { let mut acc = 0u64; w.a.m.iter().map(|v| { acc += *v as u64; acc }).collect::<Vec<u64>>() }), &|e, w, mf, x| e.compute_cumulative(mf, &w.a.v, x)),
                    Method::CumulativeBinary => drive::<SV<u64>>(case, &mut w, obs, false, &|w| min2(w.a.len(), w.b.len()), &|_w, c| c, None, &|e, w, mf, x| {
                        e.compute_cumulative_binary(mf, &w.a.v, &w.b.v, x)
                    }),
                    Method::CumulativeTransformedBinary => drive::<SV<u64>>(case, &mut w, obs, false, &|w| min2(w.a.len(), w.x.len()), &|_w, c| c, None, &|e, w, mf, x| {
                        e.compute_cumulative_transformed_binary(mf, &w.a.v, &w.x.v, |a: u32, b: u64| (a as u64 % 97) + (b % 89), x)
                    }),
                    Method::CumulativeCount => drive::<BytesVec<usize, usize>>(case, &mut w, obs, false, &|w| w.a.len(), &|_w, c| c, None, &|e, w, mf, x| {
                        e.compute_cumulative_count(mf, &w.a.v, |v: &u32| v % 3 == 0, x)
                    }),
                    Method::RollingCount => drive::<BytesVec<usize, usize>>(case, &mut w, obs, false, &|w| w.a.len(), &|_w, c| c, Some(&|w: &World| { let k = win(w); (0..w.a.m.len()).map(|i| { let lo = (i + 1).saturating_sub(k); w.a.m[lo..=i].iter().filter(|v| **v % 2 == 0).count() }).collect::<Vec<usize>>() }), &|e, w, mf, x| {
                        e.compute_rolling_count(mf, &w.a.v, win(w), |v: &u32| v % 2 == 0, x)
                    }),
                    Method::CumulativeCountFrom => drive::<BytesVec<usize, usize>>(case, &mut w, obs, false, &|w| w.a.len(), &|_w, c| c, None, &|e, w, mf, x| {
                        e.compute_cumulative_count_from(mf, &w.a.v, frac(fs, case.initial_len() + 2), |v: &u32| v % 3 != 0, x)
                    }),
                    Method::PreviousValue => drive::<SV<f32>>(case, &mut w, obs, false, &|w| w.f.len(), &|_w, c| c, None, &|e, w, mf, x| e.compute_previous_value(mf, &w.f.v, win(w), x)),
                    Method::Change => drive::<SV<i64>>(case, &mut w, obs, false, &|w| w.a.len(), &|_w, c| c, Some(&|w: &World| { let k = win(w); (0..w.a.m.len()).map(|i| if i < k { 0i64 } else { w.a.m[i] as i64 - w.a.m[i - k] as i64 }).collect::<Vec<i64>>() }), &|e, w, mf, x| e.compute_change(mf, &w.a.v, win(w), x)),
                    Method::RatioChange => drive::<SV<f32>>(case, &mut w, obs, false, &|w| w.f.len(), &|_w, c| c, None, &|e, w, mf, x| e.compute_ratio_change(mf, &w.f.v, win(w), x)),
                    Method::PercentageChange => drive::<SV<f32>>(case, &mut w, obs, false, &|w| w.f.len(), &|_w, c| c, None, &|e, w, mf, x| e.compute_percentage_change(mf, &w.f.v, win(w), x)),
                    Method::RollingRatioChange => drive::<SV<f64>>(case, &mut w, obs, false, &|w| min2(w.starts.m.len(), w.a.len()), &|_w, c| c, None, &|e, w, mf, x| {
                        e.compute_rolling_ratio_change(mf, &w.starts.v, &w.a.v, x)
                    }),
                    Method::RollingPercentageChange => drive::<SV<f64>>(case, &mut w, obs, false, &|w| min2(w.starts.m.len(), w.a.len()), &|_w, c| c, None, &|e, w, mf, x| {
                        e.compute_rolling_percentage_change(mf, &w.starts.v, &w.a.v, x)
                    }),
                    Method::RollingChange => drive::<SV<f64>>(case, &mut w, obs, false, &|w| min2(w.starts.m.len(), w.a.len()), &|_w, c| c, None, &|e, w, mf, x| {
                        e.compute_rolling_change(mf, &w.starts.v, &w.a.v, x)
                    }),
                    Method::Cagr => drive::<SV<f32>>(case, &mut w, obs, false, &|w| w.f.len(), &|_w, c| c, None, &|e, w, mf, x| e.compute_cagr(mf, &w.f.v, 365 * (1 + fs as usize % 4), x)),
                    Method::Lookback => drive::<SV<u64>>(case, &mut w, obs, false, &|w| min2(w.starts.m.len(), w.a.len()), &|_w, c| c, Some(&|w: &World| (0..w.starts.m.len().min(w.a.m.len())).map(|i| w.a.m[w.starts.m[i]] as u64).collect::<Vec<u64>>()), &|e, w, mf, x| {
                        e.compute_lookback(mf, &w.starts.v, &w.a.v, x)
                    }),
                    Method::Max => drive::<SV<u64>>(case, &mut w, obs, false, &|w| w.a.len(), &|_w, c| c, Some(&|w: &World| { let k = win(w); (0..w.a.m.len()).map(|i| { let lo = if k == 0 { i } else { (i + 1).saturating_sub(k) }; w.a.m[lo..=i].iter().copied().max().unwrap() as u64 }).collect::<Vec<u64>>() }), &|e, w, mf, x| e.compute_max(mf, &w.a.v, win(w), x)),
                    Method::Min => drive::<SV<u64>>(case, &mut w, obs, false, &|w| w.a.len(), &|_w, c| c, Some(&|w: &World| { let k = win(w); (0..w.a.m.len()).map(|i| { let lo = if k == 0 { i } else { (i + 1).saturating_sub(k) }; w.a.m[lo..=i].iter().copied().min().unwrap() as u64 }).collect::<Vec<u64>>() }), &|e, w, mf, x| e.compute_min(mf, &w.a.v, win(w), x)),
                    Method::Sum => drive::<SV<u64>>(case, &mut w, obs, false, &|w| w.a.len(), &|_w, c| c, Some(&|w: &World| { let k = win(w); (0..w.a.m.len()).map(|i| { let lo = (i + 1).saturating_sub(k); w.a.m[lo..=i].iter().map(|v| *v as u64).sum::<u64>() }).collect::<Vec<u64>>() }), &|e, w, mf, x| e.compute_sum(mf, &w.a.v, win(w), x)),
                    Method::RollingSum => drive::<SV<u64>>(case, &mut w, obs, false, &|w| min2(w.starts.m.len(), w.a.len()), &|_w, c| c, Some(&|w: &World| (0..w.starts.m.len().min(w.a.m.len())).map(|i| w.a.m[w.starts.m[i]..=i].iter().map(|v| *v as u64).sum::<u64>()).collect::<Vec<u64>>()), &|e, w, mf, x| {
                        e.compute_rolling_sum(mf, &w.starts.v, &w.a.v, x)
                    }),
                    Method::RollingMaxFromStarts => drive::<SV<u64>>(case, &mut w, obs, false, &|w| min2(w.starts.m.len(), w.a.len()), &|_w, c| c, Some(&|w: &World| (0..w.starts.m.len().min(w.a.m.len())).map(|i| *w.a.m[w.starts.m[i]..=i].iter().max().unwrap() as u64).collect::<Vec<u64>>()), &|e, w, mf, x| {
                        e.compute_rolling_max_from_starts(mf, &w.starts.v, &w.a.v, x)
                    }),
                    Method::RollingMinFromStarts => drive::<SV<u64>>(case, &mut w, obs, false, &|w| min2(w.starts.m.len(), w.a.len()), &|_w, c| c, Some(&|w: &World| (0..w.starts.m.len().min(w.a.m.len())).map(|i| *w.a.m[w.starts.m[i]..=i].iter().min().unwrap() as u64).collect::<Vec<u64>>()), &|e, w, mf, x| {
                        e.compute_rolling_min_from_starts(mf, &w.starts.v, &w.a.v, x)
                    }),
                    Method::RollingMedian => drive::<SV<f32>>(case, &mut w, obs, false, &|w| w.f.len(), &|_w, c| c, None, &|e, w, mf, x| e.compute_rolling_median(mf, &w.f.v, win(w), x)),
                    Method::AllTimeHigh => drive::<SV<u64>>(case, &mut w, obs, false, &|w| w.a.len(), &|_w, c| c, Some(&|w: &World| { let mut m = 0u64; w.a.m.iter().enumerate().map(|(i, v)| { m = if i == 0 { *v as u64 } else { m.max(*v as u64) }; m }).collect::<Vec<u64>>() }), &|e, w, mf, x| e.compute_all_time_high(mf, &w.a.v, x)),
                    Method::AllTimeLow => drive::<SV<u64>>(case, &mut w, obs, false, &|w| w.a.len(), &|_w, c| c, Some(&|w: &World| { let mut m = 0u64; w.a.m.iter().enumerate().map(|(i, v)| { m = if i == 0 { *v as u64 } else { m.min(*v as u64) }; m }).collect::<Vec<u64>>() }), &|e, w, mf, x| e.compute_all_time_low(mf, &w.a.v, x)),
                    Method::AllTimeLowExcl => {
                        if crate::common::kf::active("KF-C06-1") {
                            obs.exclude("KF-C06-1");
                            return Ok(());
                        }
                        drive::<SV<u64>>(case, &mut w, obs, false, &|w| w.a.len(), &|_w, c| c, None, &|e, w, mf, x| e.compute_all_time_low_(mf, &w.a.v, x, true))
                    }
                    Method::AllTimeHighFrom => drive::<SV<u64>>(case, &mut w, obs, false, &|w| w.a.len(), &|_w, c| c, None, &|e, w, mf, x| {
                        e.compute_all_time_high_from(mf, &w.a.v, frac(fs, case.initial_len() + 2), x)
                    }),
                    Method::AllTimeLowFrom => drive::<SV<u64>>(case, &mut w, obs, false, &|w| w.a.len(), &|_w, c| c, None, &|e, w, mf, x| {
                        e.compute_all_time_low_from(mf, &w.a.v, frac(fs, case.initial_len() + 2), x)
                    }),
                    Method::Zscore => drive::<SV<f32>>(case, &mut w, obs, false, &|w| w.f.len().min(w.g.len()).min(w.h.len()), &|_w, c| c, None, &|e, w, mf, x| {
                        e.compute_zscore(mf, &w.f.v, &w.g.v, &w.h.v, x)
                    }),
                    Method::SumOfOthers => drive::<SV<u64>>(case, &mut w, obs, false, &|w| w.x.len().min(w.y.len()).min(w.z.len()), &|_w, c| c, Some(&|w: &World| (0..w.x.m.len().min(w.y.m.len()).min(w.z.m.len())).map(|i| w.x.m[i] + w.y.m[i] + w.z.m[i]).collect::<Vec<u64>>()), &|e, w, mf, x| {
                        e.compute_sum_of_others(mf, &[&w.x.v, &w.y.v, &w.z.v], x)
                    }),
                    Method::MinOfOthers => drive::<SV<u64>>(case, &mut w, obs, false, &|w| w.x.len().min(w.y.len()).min(w.z.len()), &|_w, c| c, Some(&|w: &World| (0..w.x.m.len().min(w.y.m.len()).min(w.z.m.len())).map(|i| w.x.m[i].min(w.y.m[i]).min(w.z.m[i])).collect::<Vec<u64>>()), &|e, w, mf, x| {
                        e.compute_min_of_others(mf, &[&w.x.v, &w.y.v, &w.z.v], x)
                    }),
                    Method::MaxOfOthers => drive::<SV<u64>>(case, &mut w, obs, false, &|w| w.x.len().min(w.y.len()).min(w.z.len()), &|_w, c| c, Some(&|w: &World| (0..w.x.m.len().min(w.y.m.len()).min(w.z.m.len())).map(|i| w.x.m[i].max(w.y.m[i]).max(w.z.m[i])).collect::<Vec<u64>>()), &|e, w, mf, x| {
                        e.compute_max_of_others(mf, &[&w.x.v, &w.y.v, &w.z.v], x)
                    }),
                    Method::WeightedAverageOfOthers => drive::<SV<f64>>(case, &mut w, obs, false, &|w| w.a.len().min(w.b.len()).min(w.d1.len()).min(w.d2.len()), &|_w, c| c, None, &|e, w, mf, x| {
                        e.compute_weighted_average_of_others(mf, &[&w.a.v, &w.b.v], &[&w.d1.v, &w.d2.v], x)
                    }),
                    Method::SumFromIndexes => drive::<SV<u64>>(case, &mut w, obs, true, &|w| w.counts.len(), &|_w, c| c, Some(&|w: &World| (0..w.counts.m.len()).map(|g| { let f = w.first.m[g]; w.fine.m[f..f + w.counts.m[g] as usize].iter().fold(0u64, |a, b| a.saturating_add(*b)) }).collect::<Vec<u64>>()), &|e, w, mf, x| {
                        e.compute_sum_from_indexes(mf, &w.first.v, &w.counts.v, &w.fine.v, x)
                    }),
                    Method::FilteredSumFromIndexes => drive::<SV<u64>>(case, &mut w, obs, true, &|w| w.counts.len(), &|_w, c| c, None, &|e, w, mf, x| {
                        e.compute_filtered_sum_from_indexes(mf, &w.first.v, &w.counts.v, &w.fine.v, |v: &u64| v % 2 == 0, x)
                    }),
                    Method::CountFromIndexes => drive::<BytesVec<usize, usize>>(case, &mut w, obs, true, &|w| w.first.m.len(), &|_w, c| c, Some(&|w: &World| (0..w.first.m.len()).map(|g| w.first.m.get(g + 1).copied().unwrap_or(w.fine.m.len()) - w.first.m[g]).collect::<Vec<usize>>()), &|e, w, mf, x| {
                        e.compute_count_from_indexes(mf, &w.first.v, &w.fine.v, x)
                    }),
                    Method::FilteredCountFromIndexes => drive::<BytesVec<usize, usize>>(case, &mut w, obs, true, &|w| w.first.m.len(), &|_w, c| c, None, &|e, w, mf, x| {
                        e.compute_filtered_count_from_indexes(mf, &w.first.v, &w.fine.v, |i: usize| i % 3 != 1, x)
                    }),
                    // result[i] = x[keys[i]]: a change of x at index c reaches every i with keys[i] >= c
                    Method::IndirectSequential => drive::<SV<u64>>(case, &mut w, obs, false, &|w| w.keys.m.len(), &|w, c| c.min(w.keys.m.partition_point(|&k| k < c)), Some(&|w: &World| w.keys.m.iter().map(|&k| w.x.m[k]).collect::<Vec<u64>>()), &|e, w, mf, x| {
                        e.compute_indirect_sequential(mf, &w.keys.v, &w.x.v, x)
                    }),
                    // ---- running float state resumed exactly from the stored last value (same precision): the
                    // incremental result must be bit-identical to the single-call one
                    Method::Sma => drive::<SV<f32>>(case, &mut w, obs, false, &|w| w.f.len(), &|_w, c| c, None, &|e, w, mf, x| e.compute_sma(mf, &w.f.v, win(w), x)),
                    Method::SmaFrom => drive::<SV<f32>>(case, &mut w, obs, false, &|w| w.f.len(), &|_w, c| c, None, &|e, w, mf, x| {
                        e.compute_sma_(mf, &w.f.v, win(w), x, Some(frac(fs, case.initial_len() + 2)))
                    }),
                    Method::Ema => drive::<SV<f32>>(case, &mut w, obs, false, &|w| w.g.len(), &|_w, c| c, None, &|e, w, mf, x| e.compute_ema(mf, &w.g.v, win(w), x)),
                    Method::EmaFrom => drive::<SV<f32>>(case, &mut w, obs, false, &|w| w.g.len(), &|_w, c| c, None, &|e, w, mf, x| {
                        e.compute_ema_(mf, &w.g.v, win(w), x, Some(frac(fs, case.initial_len() + 2)))
                    }),
                    Method::Rma => drive::<SV<f32>>(case, &mut w, obs, false, &|w| w.h.len(), &|_w, c| c, None, &|e, w, mf, x| e.compute_rma(mf, &w.h.v, win(w), x)),
                    Method::RollingEma => drive::<SV<f64>>(case, &mut w, obs, false, &|w| min2(w.starts.m.len(), w.a.len()), &|_w, c| c, None, &|e, w, mf, x| {
                        e.compute_rolling_ema(mf, &w.starts.v, &w.a.v, x)
                    }),
                    Method::RollingRma => drive::<SV<f64>>(case, &mut w, obs, false, &|w| min2(w.starts.m.len(), w.b.len()), &|_w, c| c, None, &|e, w, mf, x| {
                        e.compute_rolling_rma(mf, &w.starts.v, &w.b.v, x)
                    }),
                    // sum(numerator[starts[i]..=i]) / denominator[i] with integer numerators and denominators that are
                    // zero or a power of two: every sum, quotient and the product that recovers the sum on resume are exact
                    Method::RollingRatioPow2 => drive::<SV<f64>>(case, &mut w, obs, false, &|w| w.starts.m.len().min(w.a.len()).min(w.pw.len()), &|_w, c| c,
                        Some(&|w: &World| (0..w.starts.m.len().min(w.a.m.len()).min(w.pw.m.len())).map(|i| { let s: u64 = w.a.m[w.starts.m[i]..=i].iter().map(|v| *v as u64).sum(); if w.pw.m[i] == 0 { 0.0 } else { s as f64 / w.pw.m[i] as f64 } }).collect::<Vec<f64>>()),
                        &|e, w, mf, x| e.compute_rolling_ratio(mf, &w.starts.v, &w.a.v, &w.pw.v, x)),
                    Method::FirstPerIndex => {
                        // index spaces are swapped for this method (result: coarse -> first fine index);
                        // its starting index is a FINE index
                        first_per_index(case, &mut w, obs)
                    }
                };
                rawdb::verif::set_max_cache_size(None);
                if case.big {
                    obs.label("sources-longer-than-one-cursor-chunk");
                }
                obs.label(case.method.name());
                r
            }

            /// compute_first_per_index: result[c] = first fine index i with f2c[i] == c (gaps padded with the
            /// next group's first index); max_from is a fine index.
            fn first_per_index(case: &Case, w: &mut World, obs: &mut Obs) -> Result<(), String> {
                let exit = Exit::new();
                let name = format!("out{}", NAME_SEQ.fetch_add(1, std::sync::atomic::Ordering::Relaxed));
                let mut out: EagerVec<BytesVec<usize, usize>> = EagerVec::forced_import(&w.db, &name, Version::ONE).map_err(|e| format!("import: {e}"))?;
                w.grow_initial(case.initial_len())?;
                let mut first = true;
                for (si, step) in case.steps.iter().enumerate() {
                    let fine_before = w.f2c.m.len();
                    let change = match step.change {
                        // KF-C06-3 (known finding): stale entries for groups that became empty after a
                        // truncation + regrowth. Excluded: the mapping only grows for this method (counted).
                        Change::Regrow { n, .. } if crate::common::kf::active("KF-C06-3") => {
                            obs.exclude("KF-C06-3");
                            Change::Grow { n, skew: [0, 0, 0] }
                        }
                        // a truncation is always followed by regrowth (the property's history shape)
                        Change::Regrow { at, n } => Change::Regrow { at, n: n.max(3) },
                        c => c,
                    };
                    let changed = if first { Some(0) } else { w.change(change)? };
                    first = false;
                    if changed.is_some() && w.f2c.m.len() <= w.last_fine_change && w.last_fine_change < fine_before {
                        // truncated without any regrowth (only empty groups were added): not a history the
                        // property speaks about; regrow once more
                        let more = w.first.m.len();
                        let _ = more;
                        w.change(Change::Grow { n: 9, skew: [0, 0, 0] })?;
                        if w.f2c.m.len() <= w.last_fine_change.min(fine_before) {
                            return Ok(());
                        }
                    }
                    // first changed FINE index of the mapping
                    let bound = match changed {
                        None => fine_before,
                        Some(_) => w.last_fine_change.min(fine_before),
                    };
                    let mf = match step.max_from {
                        MfSel::AtChange => bound,
                        MfSel::Minus(k) => bound.saturating_sub(k as usize),
                        MfSel::Frac(f) => frac(f, bound),
                        MfSel::Zero => 0,
                    };
                    // KF-C06-2 (known finding): with a write-batch boundary inside the call the method
                    // re-truncates to its starting index in every batch and never finishes. Excluded: the
                    // batch limit stays at its default for this method (counted).
                    let batch = if step.batch != BatchSel::Default && crate::common::kf::active("KF-C06-2") {
                        obs.exclude("KF-C06-2");
                        BatchSel::Default
                    } else {
                        step.batch
                    };
                    let src = Counted { inner: &w.f2c.v, reads: Default::default(), budget: 50 * (w.f2c.m.len() + 20) };
                    // the starting index is the first fine index of a group (callers restart at a group boundary)
                    let mf = w.first.m.iter().copied().filter(|&f| f <= mf).max().unwrap_or(0);
                    set_batch::<usize>(batch);
                    let r = crate::common::runner::catch_panic(|| out.compute_first_per_index(mf, &src, &exit));
                    set_batch::<usize>(BatchSel::Default);
                    match r {
                        Err(p) => return Err(format!("FirstPerIndex step #{si} {step:?}: panicked (max_from {mf}): {p}")),
                        Ok(Err(_)) => {
                            obs.label("refused-by-method");
                            return Ok(());
                        }
                        Ok(Ok(())) => {}
                    }
                    let rname = format!("ref{}", NAME_SEQ.fetch_add(1, std::sync::atomic::Ordering::Relaxed));
                    let mut fresh: EagerVec<BytesVec<usize, usize>> = EagerVec::forced_import(&w.db, &rname, Version::ONE).map_err(|e| format!("import ref: {e}"))?;
                    if !matches!(crate::common::runner::catch_panic(|| fresh.compute_first_per_index(0, &w.f2c.v, &exit)), Ok(Ok(()))) {
                        let _ = fresh.remove();
                        obs.label("reference-refused");
                        return Ok(());
                    }
                    let (got, want) = (out.collect(), fresh.collect());
                    let _ = fresh.remove();
                    if got != want {
                        let i = got.iter().zip(&want).position(|(a, b)| a != b).unwrap_or(got.len().min(want.len()));
                        return Err(format!(
                            "FirstPerIndex [{:?}] step #{si} {step:?}: max_from {mf} (fine index): incremental result ({} elements) differs from the from-scratch result ({} elements) at coarse index {i}: {:?} vs {:?}",
                            case.family,
                            got.len(),
                            want.len(),
                            got.get(i),
                            want.get(i)
                        ));
                    }
                }
                obs.set_nontrivial();
                Ok(())
            }
        }
    };
}

compute_family!(raw, BytesVec);
compute_family!(pco, PcoVec);

pub fn run(case: &Case, obs: &mut Obs) -> Result<(), String> {
    match case.family {
        Family::Raw => raw::run(case, obs),
        Family::Pco => pco::run(case, obs),
    }
}
