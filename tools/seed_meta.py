#!/usr/bin/env python3
"""Writes seeded/<id>/meta.json from the table below (what each seeded change breaks, what it needs to
manifest, what was run, which checks catch it)."""
import json, os
ROOT = os.path.dirname(os.path.dirname(os.path.abspath(__file__)))
CONFIRM = "tools/seed_confirm.sh <scratch worktree> seeded/{id} {crate} {feat}: existing workspace suite with the change: pass; demo with the change: FAIL; demo on the unchanged code: pass (all three run by the author of the checks in a scratch worktree, not by the sub-agent alone)"
T = {
 "C01-A": ("C01", "rawdb", "", "Layout::promote_pending_holes probes the hole AFTER at start+size instead of final_start+size: after a merge with a hole in front, a far hole is merged across live data", "remove r0 + flush; remove r3,r4 + flush; remove r1 + flush (three separate flushes in that order), then a region growing page by page", {"C02": "caught (quick, seed 1: adjacent/overlapping free extents)", "C01": "not caught in the quick tier (needs the three-flush removal pattern)"}),
 "C01-B": ("C01", "rawdb", "", "relocation into a hole shrinks the hole by added_reserve instead of new_reserved: a leftover hole overlaps the relocated region", "a flushed hole of >= 2x the region's reserve, a region that outgrows its reserve while not last, then another allocation", {"C01": "caught", "C02": "caught"}),
 "C02-A": ("C02", "rawdb", "", "Layout::is_last_anything looks at the FIRST pending hole instead of the last", "pending holes both below and above the last live region in one flush interval, then growth of that region, flush, allocation", {"C02": "caught", "C01": "caught"}),
 "C02-B": ("C02", "rawdb", "", "Layout::from no longer rebuilds the gap before the first region as a hole", "the extent at offset 0 freed, flush, close and reopen", {"C02": "caught", "C01": "not caught (no byte is wrong; space is leaked)"}),
 "C03-A": ("C03", "vecdb", "", "truncate_dirty_at keeps a pending update at exactly the truncation index", "raw vector: unflushed update(k) with k the largest updated key, truncate at exactly k, push, flush", {"C03": "caught"}),
 "C03-B": ("C03", "vecdb", "", "raw write() rewrites the _holes region with write_at instead of truncate_write", ">= 2 flushed holes, then a flush with a smaller non-empty hole set missing the largest slot, then re-import", {"C03": "caught"}),
 "C04-A": ("C04", "vecdb", "", "raw rollback applies the base rollback before pruning updates beyond the restored length", "commit an append, commit an update inside it, roll both back, push over that slot, commit", {"C04": "caught"}),
 "C04-B": ("C04", "vecdb", "--features pco,lz4,zstd", "compressed rollback clamps agree_at with real_stored_len instead of stored_len", "two consecutive truncate+push commits, the second deeper, both rolled back consecutively", {"C04": "caught"}),
 "C07-A": ("C07", "vecdb", "--features pco", "a truncation inside the raw tail page written on its own shrinks only the index entry", "raw tail page on disk, truncate strictly inside it written alone, then an append that fits with different values", {"C07": "caught"}),
 "C07-B": ("C07", "vecdb", "--features lz4", "fast-append page budget checked in bytes instead of elements", "element width that does not divide 16 KiB, a raw tail page filled exactly to capacity by a later write, one more append", {"C07": "caught after [u8;3]/[u8;12] were added to the vector matrix (missed before: only power-of-two widths were generated)", "C03": "not caught (values are right; only the on-disk index is malformed)"}),
 "C08-A": ("C08", "vecdb", "", "raw file-IO scan buffer rounded down with a bit mask", "raw vector with a non-power-of-two element size, file-IO back-end, scanned range longer than one 512 KiB buffer", {"C08": "caught after the generator was given odd element widths and 1-in-40 vectors longer than one IO buffer (missed before)", "C20": "not caught (no out-of-region access)"}),
 "C08-B": ("C08", "vecdb", "", "Cursor::ensure_buffered_at loses its lower-bound check", "a vector longer than one cursor chunk, one cursor moved to a later chunk and then used for an earlier index", {"C08": "caught"}),
 "C13-A": ("C13", "rawdb", "", "Region::remove try/undo leaves the extent in the pending holes after a refused removal", "refused remove with another handle alive, then flush, then an allocation", {"C13": "caught"}),
 "C13-B": ("C13", "vecdb", "--features pco", "compressed import creates the _pages region before the header check", "refused compressed import on a name whose data region exists but whose page-index region does not (vector stored raw)", {"C13": "caught"}),
 "C14-A": ("C14", "vecdb", "", "a header-only region (zero values) is re-created instead of verified on import", "vector created and flushed empty (or truncated to 0), then import with another version/format", {"C14": "caught"}),
 "C14-B": ("C14", "vecdb", "", "forced reset removes the _holes region before the data region", "raw vector with persisted holes, forced import under another version while a read-only clone still references the data region", {"C14": "not caught", "C13": "caught after the refused request 'forced import while a clone is held' was added (missed before)"}),
 "C16-A": ("C16", "vecdb", "", "save_change_file counts the record of the stamp being committed as an older record", "re-commit of a used stamp after a rollback while the retention window (k >= 2) is full", {"C16": "caught"}),
 "C16-B": ("C16", "vecdb", "", "apply_rollback no longer records the restored stored length as baseline", "length-changing commit undone with a single rollback(), re-commit in the same process, rollback again", {"C16": "caught", "C04": "caught"}),
 "C17-A": ("C17", "rawdb", "", "RegionMetadata::from_bytes rejects len == reserved", "a region filled to exactly 4096*2^k bytes, flush, reopen (or a direct decode)", {"C17": "caught", "C01": "caught"}),
 "C17-B": ("C17", "vecdb", "", "ChangeCursor::check_remaining adds without overflow check", "a change record whose count passes checked_mul but overflows pos + len (u8 elements with usize::MAX, index lists with 2^61-1)", {"C17": "caught", "C16": "not caught (its field values do not include that window)"}),
 "C18-A": ("C18", "rawdb", "", "open_with_min_len grows the file before taking the lock", "a live holder and a second open_with_min_len with min_len above the current size", {"C18": "caught"}),
 "C18-B": ("C18", "rawdb", "", "sync_bg_tasks returns early when the 'syncing' flag is already set", "an earlier background task that returned Err and was collected, a later task still running when the last handle is dropped", {"C18": "caught after failing background tasks and explicit sync_bg_tasks() were added to the op language (missed before)"}),
 "C20-A": ("C20", "vecdb", "", "range-aware dirty check bounded by the on-disk length", "raw vector after the rollback of a truncating commit (logical length beyond the region), range read reaching the tail", {"C20": "caught", "C08": "not caught in the quick tier"}),
 "C20-B": ("C20", "vecdb", "", "rollback refreshes the previous-updates snapshot only when the record had modifications", "rollback of a pure truncation, then a commit: the change record serialisation reads past the region end", {"C20": "caught after the access monitor was extended to fetches made during mutations (missed before: only read requests were monitored)", "C04": "caught"}),
}
for sid, (prop, crate, feat, what, needs, det) in T.items():
    d = os.path.join(ROOT, "seeded", sid)
    if not os.path.isdir(d):
        continue
    meta = {
        "id": sid, "breaks_property": prop, "change": what, "needs_to_manifest": needs,
        "demonstration": f"demo.rs -> crates/{crate}/tests/seed_demo.rs; cargo test -p {crate} --offline {feat} --test seed_demo".replace("  ", " "),
        "confirmed": CONFIRM.format(id=sid, crate=crate, feat=feat).replace("  ", " "),
        "checks_run": {k: v for k, v in det.items()},
        "how_checks_were_run": "tools/seed_try.sh / tools/seed_try_iso.sh <patch> <IDs>: quick tier, VERIF_SEED=1, patch applied to /repo (or to a scratch worktree with a copy of the harness pointing at it) and undone afterwards",
        "origin": "written by a sub-agent that saw only the property text and a scratch worktree of /repo",
    }
    json.dump(meta, open(os.path.join(d, "meta.json"), "w"), indent=1)
print("meta.json written for", len([s for s in T if os.path.isdir(os.path.join(ROOT, 'seeded', s))]), "seeded changes")
