#!/usr/bin/env python3
"""Regenerates /verif/MANIFEST.json from the table below (kept valid at all times)."""
import json, subprocess, os, sys
ROOT = os.path.dirname(os.path.dirname(os.path.abspath(__file__)))

def hook_commits():
    try:
        out = subprocess.check_output(["git", "-C", "/repo", "log", "--format=%H %s"], text=True)
    except Exception:
        return []
    return [l.split()[0] for l in out.splitlines() if " verif hooks:" in l]

# id -> (engine, level category, level text, level note, technique, design ref)
CHECKS = {
 "C01": ("E1-rawmodel", "exploration",
         "Model-based stateful property test: generated region-operation histories are executed against rawdb and a per-name Vec<u8> model, with every live region compared after every step and after reopen. Held on everything explored; no absence claim.",
         "Trusts: the model (a map name -> Vec<u8>), tmpfs behaving like the target filesystem, clean close/reopen (crashes are C05).",
         "stateful model-based property testing (proptest histories + reference model, shrinking to a replay file)", "DESIGN.md §4 C01, §3 E1"),
 "C02": ("E1-rawmodel", "exploration",
         "Invariant over generated histories: after every operation the extent invariants (alignment, disjointness, exact partition of the allocated area into live extents and tracked free extents, merged holes, placement-into-free-space rule) are evaluated on the real layout through read-only accessors.",
         "Trusts: hook H2 accessors expose the real pending-hole/reservation maps; invariants are checked at quiescence only (single-threaded histories).",
         "property-based invariant checking over generated operation histories", "DESIGN.md §4 C02, §3 E1"),
 "C03": ("E3-vecmodel", "exploration",
         "Model-based stateful property test over a 35-entry (format x element type) matrix: generated op lists are executed against the real vector and a Vec<Option<T>> model, compared bit-exactly after every step (len, all elements incl. deleted slots, holes, stamp), plus a differential run of the same ops on a second format. Held on everything explored.",
         "Trusts the model and the deterministic value generator; reset_unsaved and rollback are not part of this property's op set.",
         "stateful model-based + differential property testing (proptest)", "DESIGN.md §4 C03, §3 E3"),
 "C04": ("E3-vecmodel", "exploration",
         "Model-based property test of commit/rollback histories: a snapshot tree plus a model of the change-record directory predicts the exact state (contents, deleted slots, stamp) after every commit, rollback(), rollback_before(s), re-import and continuation, for all formats and retention settings 1..12.",
         "Rollbacks are issued from clean committed states only and no plain write() happens between commits (as the property states); trusts the snapshot model.",
         "stateful model-based property testing (proptest) with snapshot-tree oracle", "DESIGN.md §4 C04, §3 E3"),
 "C07": ("E3-vecmodel", "exploration",
         "Model-based property test restricted to compressed formats plus a structural parser of the on-disk page index (read through rawdb, independent of vecdb's own Pages code) run after every write and re-import; values are compared bit-exactly.",
         "Trusts the independent page-index parser (16-byte little-endian entries, high bit of the count = raw flag) and the model.",
         "stateful property testing with bit-exact round-trip oracle + on-disk structural invariant", "DESIGN.md §4 C07"),
 "C13": ("E1-rawmodel + E3-vecmodel", "exploration",
         "Generated histories with deliberately refused requests interleaved; after each refusal the full observable state must equal the state before, and every later operation must match the model and (rawdb) a twin database that never saw the refused calls.",
         "Refused requests are the ones the property lists; retain_regions over a still-referenced region (a composite of several removals) is not generated. Lock/IO errors cannot be provoked through the API.",
         "stateful property testing with no-effect oracle (before/after snapshot + twin differential)", "DESIGN.md §4 C13"),
 "C16": ("E3-vecmodel", "fault_enumeration",
         "Commit/rollback histories under every retention setting with systematic single-file fault injection on the change directory: truncation of the newest record at every byte offset, every count field set to 2^32 / 2^63 / u64::MAX, deletion; older records deleted / halved / malformed before rollback_before. The directory listing is compared with a model after every commit.",
         "Faults are single-file and confined to the change directory; in-range (plausible) corruptions of a length field cannot be detected without checksums and are not demanded.",
         "property-based fault injection (enumerated truncation offsets and field values) with model oracle", "DESIGN.md §4 C16"),
 "C08": ("E3-vecmodel", "exploration",
         "Model-based property test of the whole read-path matrix: C03-style histories with generated read requests (empty, reversed, beyond-len, page-straddling, stored/pushed-straddling ranges; index lists; mmap/file-IO crossover forced to default / 0 / 64 bytes); every read API of the read-write vector, read-only clones, boxed clones, cached wrappers, cursors, point readers and stored-only scans is compared with the reference model restricted to the range; any panic is a violation.",
         "Stored-only views are compared only in states whose stored prefix equals the logical contents (they are documented to ignore pending updates / deleted slots). Known finding KF-C08-1 (Cursor / read_sorted_* on a raw vector with deleted slots) is excluded by construction and counted.",
         "differential + model-based property testing over generated histories and read requests (proptest)", "DESIGN.md §4 C08"),
 "C20": ("E3-vecmodel", "exploration",
         "Runtime monitor over generated histories: C03 and C04 histories (so that the logical stored length can exceed what is on disk) with the C08 read matrix interleaved; the access tap (hook H8) reports every byte range dereferenced through the memory map or read from the data file and each must lie inside one of the vector's own regions and below that region's current length.",
         "Only call sites instrumented by hook H8 are observed. Known finding KF-C20-1 (stored-only views of a raw vector between the rollback of a truncating commit and the next write) is excluded by construction and counted.",
         "property-based testing with an instrumented access monitor as oracle (proptest)", "DESIGN.md §4 C20"),
 "C17": ("E7-codec", "exploration",
         "Differential property test of every on-disk decoder against an independent reference decoder written from the format: region metadata slots, vector headers, page-index entries, 30 value encodings, raw and base change records; valid encodings at and around the limits plus truncations, bit flips, boundary values in the length/count words, extensions and arbitrary bytes. The library must accept/refuse exactly as the reference does, decode the same fields, never panic and never request an allocation beyond 2x input + 512 bytes (counting allocator). Through the API: regions files with invalidated slots must open, skip exactly those slots and load the others unchanged.",
         "Trusts the reference decoders (the formats and validity rules as the property states them) and hook H9's public wrappers over the private decoders. Proptest only: the libFuzzer campaign sketched in the design is not built.",
         "differential property testing (reference decoder) with structured mutation of valid encodings (proptest)", "DESIGN.md §4 C17"),
 "C14": ("E3-vecmodel", "exploration",
         "Model-based property test of the import matrix: a vector is created through one of the four entry points in one of six formats under a generated version, filled by a C03-style history (so that holes / page-index regions exist), optionally given a damaged header, and then requested through a generated entry point under a generated (format, version). Match => exactly the stored contents and a working vector; mismatch + plain => DifferentVersion/DifferentFormat with every region of the database byte-identical and the creating pair still importing everything; mismatch + forced => an empty vector (no elements, no deleted slots) that then behaves like a fresh one.",
         "Lock and I/O errors cannot be provoked through the public API, so that clause is not exercised; element type equal on both sides (u32 / u64).",
         "stateful model-based property testing over the (format, version, entry point) matrix (proptest)", "DESIGN.md §4 C14"),
 "C18": ("E8-proc", "exploration",
         "Stateful property test over one directory: generated histories of writes/flushes, holders of the first instance added and dropped in any order (Database clones, Readers, region.db() references, a sleeping run_bg task) and further opens (open / open_with_min_len below, at and above the current size) from another thread and from a re-exec'd child process. While any holder lives the attempt must return the lock error and leave both files byte-identical; once the last holder is gone the open must succeed and read back exactly the flushed model.",
         "flock semantics of tmpfs are assumed equal to the target filesystem's; an attempt that blocks instead of failing is decided by releasing the holders (success afterwards = violation), never by a timeout alone; the last holder always flushes before closing.",
         "stateful property testing with cross-thread and cross-process open attempts against a reference model (proptest)", "DESIGN.md §4 C18"),
 "C05": ("E2-crash", "fault_enumeration",
         "Fault enumeration over generated histories: every storage event (mmap write, length change, sync, hole punch) recorded by hook H1 during a generated region-operation history is a crash point; per point a systematic family of durable images (nothing written back / everything / every single dirty page flipped either way / seeded random per-page version choices) is materialised from page contents read back from the real file and opened with Database::open. Oracle: opens without panic; extents aligned, pairwise disjoint, inside the file; every region untouched since the last completed flush is exact; with no write-back every region not overwritten in place since the last metadata sync is exactly as it was then and no other region exists.",
         "Crash model exactly as the property states it (atomic 4 KiB pages, ordered durable length changes, any subset of dirty pages); single-page flips are limited to 10 pages per crash point (all metadata pages first); single-threaded histories. Trusts hook H1 to report every write/sync site.",
         "property-based fault injection: generated histories x enumerated crash points x enumerated page-subset families, recovery oracle from a reference model (proptest)", "DESIGN.md §4 C05, §3 E2"),
 "C12": ("E2-crash", "fault_enumeration",
         "Generated histories with frequent compact(): placement, lengths, byte contents (model) and both file lengths are compared across every compact(); every hole-punch event is checked against the in-memory metadata and against the durable regions-file image reconstructed by the crash simulator at that instant (disjoint from every referenced region's valid pages, inside a free extent or an unused reserve); every storage event from the first compact() on is a crash point under the C05 image families and recovery oracle.",
         "Crash model as for C05. Concurrent part (3 of 5 cases): compact() in one program of the C10 engine while the other programs write/relocate/flush, at lock-request/yield-point granularity; known finding KF-C12-1 (hole punch between a concurrent writer's data write and its length update) is excluded by construction (the region is no longer content-checked once a compaction overlapped a write that extended it past its last valid page) and counted.",
         "property-based fault injection + invariant monitor over recorded storage events (proptest)", "DESIGN.md §4 C12, §3 E2"),
 "C15": ("E5-lazy", "exploration",
         "Property test with a formula oracle: every lazy vector kind (one/two/three-source transforms incl. index-dependent functions, the shipped arithmetic transforms, lazy-over-lazy and sources of another index type; windowed delta operators Sub/Avg/Change/Rate over generated monotone window starts; sparse aggregation over generated first-index mappings) is built over stored sources of generated formats and lengths, and every read path (whole, ranges incl. beyond the end and to=usize::MAX, into-buffer, fold/try_fold with early exit, for_each, signed ranges, point reads, sorted reads with duplicates, cursors, boxed clones) is compared with the closed formula over the model sources, right after construction and again after the sources grew.",
         "Float outputs are compared bit-exactly (same operation order as documented); for a delta vector whose window-start array is shorter than its source, len() may report the source length while min(source, starts) elements are readable - the reads are held to the readable length. Halve/Negate are only defined for signed element types and are not exercised.",
         "property-based testing against a closed-formula oracle over generated sources, mappings and read requests (proptest)", "DESIGN.md §4 C15"),
 "C09": ("E6-sched", "exploration",
         "Schedule exploration with a deterministic scheduler: one writer program (append batches around the page thresholds, write()/flush()) and 1-2 reader programs over read-only clones run as real threads of which exactly one executes at a time; every instrumented lock request (hook H3) and every yield point around the stored-length publication (H4) is a scheduling point and the next program comes from a generated choice vector (uniform / sticky / directed preemption right before the publication). Oracle: every value read at index i is the value pushed at i, every returned sequence covers the indices below the length the reader had observed, lengths never decrease, no panic, no model deadlock, final contents complete.",
         "Interleavings at lock-request/yield-point granularity under sequential consistency only (weak-memory reorderings of the length's Release/Acquire pair are out of reach); locks modelled as writer-preferring FIFO. Known finding KF-C09-1 (compressed write() re-encoding the partial last page in place before the index update) is excluded by construction (such batches are shortened) and counted.",
         "property-based schedule exploration: generated thread programs x generated schedules under a deterministic scheduler, prefix/value oracle (proptest)", "DESIGN.md §4 C09, §3 E6"),
 "C11": ("E6-sched", "exploration",
         "Schedule exploration with the deterministic scheduler: 2-3 programs of 1-4 public-API operations each (region writes that fit / fill / overflow the reserve / grow the file, truncation, region and database flush, compact inline and as a joined background program, create/remove/rename, short-lived Readers, vector push+write/flush on raw, Pco and LZ4 vectors, reads through read-only clones), prologues that leave holes, a nearly full file, or a page-index region about to grow. A state in which no program is enabled while some are unfinished is a deadlock under writer-preferring FIFO read-write locks and is reported with each program's held and requested locks.",
         "Sampled schedules of short programs; scheduling points are lock requests and yield points. parking_lot Mutexes and the Condvar of bg_sleep are not modelled (leaf locks / skipped wait); run_bg + sync_bg_tasks are represented by an extra program and a scheduler-aware join. Liveness beyond 'this finite run terminates' is not addressed.",
         "property-based schedule exploration with a lock-model deadlock oracle (proptest + deterministic scheduler)", "DESIGN.md §4 C11, §3 E6"),
 "C10": ("E6-sched", "exploration",
         "Schedule exploration with the deterministic scheduler: 2-3 programs that own distinct regions (append small / exactly to the reserve / one byte over it / several doublings, positional write, truncate, truncate_write, rename, create, remove, Region::flush, Database::flush, compact) with holes and a nearly full file in the prologue. After every own operation a program compares all of its regions with a private byte model (isolation); Readers (also on other programs' regions) are held across up to 5 operations of the other programs and every byte below the snapshot length must occur at that offset in a version the region had since the Reader's creation; at the quiescent end the C02 extent invariants hold and every region equals its owner's final model.",
         "Interleavings at lock-request/yield-point granularity under sequential consistency. Known findings excluded by construction and counted: KF-C10-1 (a Reader whose region was relocated while it was held: byte clause skipped for exactly those Readers) and KF-C12-1 (compact() overlapping a write that extends a region beyond its last valid page: that region is no longer content-checked).",
         "property-based schedule exploration with per-program reference models and a version-history oracle for held Readers (proptest + deterministic scheduler)", "DESIGN.md §4 C10, §3 E6"),
 "C06": ("E4-compute", "exploration",
         "Differential property test over a table of 60 EagerVec methods (52 with exact arithmetic, 8 whose floating-point running state is resumed exactly from the stored last value or whose inputs make every sum and quotient exact): a generated history (initial fill; steps of redundant call / every source grows / every source is truncated at a generated index and regrown with different data; starting index drawn at and below the first changed source index; write-batch limit forced to 1, 3, 17 elements or default through hook H6; windows 0, 1, 2, 5, len-1, len, len+5, usize::MAX; optional flush + re-import) is applied to stored sources of the raw and the Pco family, and after EVERY call the result must equal, bit for bit, the same method evaluated in one call with the default batch limit on a fresh EagerVec, have the length of the shortest governing source, and (22 methods) equal a closed formula over the model sources.",
         "The float methods with lossy resumable state (sma, ema, rma, rolling_average, rolling_sd, expanding_sd, rolling_ema/rma, rolling_ratio) are outside 'exact arithmetic' and are not checked. A call that errs or panics is only a violation when the from-scratch evaluation of the same inputs succeeds. Known findings excluded by construction and counted: KF-C06-1 (all_time_low with exclude_default: method not run), KF-C06-2 (first_per_index across a batch boundary: default batch limit only), KF-C06-3 (first_per_index after truncation + regrowth: its mapping only grows).",
         "differential + metamorphic property testing (incremental history vs from-scratch single call, batch-size variation) with closed-formula references (proptest)", "DESIGN.md §4 C06, §3 E4"),
 "C19": ("E4-compute", "exploration",
         "Property test over sequences of compute calls for one representative per compute family (compute_to with an explicit version, transform, transform2, cumulative_transformed_binary with index/evaluation-logging closures; add, multiply, cumulative, sum, max, sum_of_others by their outputs): sources are re-imported under new versions with data that differs at every index, the explicit version changes, sources grow, the caller passes a starting index as if nothing below the stored length had changed, batch limit 1/3/17/default, optional flush + re-import. Version changed => result equals the from-scratch result under the new inputs at every index and the closure ran for exactly 0..len; unchanged => nothing below min(starting index, stored length) is evaluated or altered; header().computed_version() == own + dependency versions after every call and after re-import.",
         "A source's version changes only through a forced re-import, which also discards its data; ten representative methods, not the whole table (C06 covers the table's values).",
         "stateful property testing with evaluation-logging closures and a from-scratch differential (proptest)", "DESIGN.md §4 C19, §3 E4"),
}
WIP = "not claimed: the generated-input check designed in DESIGN.md §4 was not built within the time available (the technique applies; nothing is asserted about this property)"

props = [json.loads(l) for l in open(os.path.join(ROOT, "properties.jsonl"))]
checks, na = [], []
for p in props:
    pid = p["id"]
    if pid in CHECKS:
        eng, cat, text, note, tech, ref = CHECKS[pid]
        checks.append({
            "property_id": pid,
            "quick_cmd": f"./check {pid} quick",
            "thorough_cmd": f"./check {pid} thorough",
            "evidence_file": f"evidence/{pid}.json",
            "replay_cmd_template": f"./check {pid} --replay {{path}}",
            "engine": eng,
            "level_claimed": {"category": cat, "text": text, "design_ref": ref},
            "level_note": note,
            "technique": tech,
        })
    else:
        na.append({"property_id": pid, "reason": WIP})

ENGINES = [
 {"name": "E3-vecmodel", "path": "harness/src/vecmodel", "serves_properties": ["C03", "C04", "C07", "C08", "C13", "C14", "C16", "C20"], "kind_free_text": "vector op language + Vec<Option<T>> reference model + snapshot tree for rollback, generic over the format x element-type matrix"},
 {"name": "E7-codec", "path": "harness/src/props/c17.rs", "serves_properties": ["C17"], "kind_free_text": "encoders/decoders driven directly (hook H9) and through Database::open; reference decoders, mutation operators, counting global allocator"},
 {"name": "E8-proc", "path": "harness/src/props/c18.rs", "serves_properties": ["C18"], "kind_free_text": "holder/open-attempt histories; second opens from threads and from re-exec'd child processes (vcheck --child-open)"},
 {"name": "E2-crash", "path": "harness/src/crash", "serves_properties": ["C05", "C12"], "kind_free_text": "storage-event recorder (hook H1) + page-versioned durable-image simulator + crash-image enumeration and recovery oracle on top of E1"},
 {"name": "E5-lazy", "path": "harness/src/props/c15.rs", "serves_properties": ["C15"], "kind_free_text": "lazy vector constructors over stored sources, closed-formula oracles, generic read-path matrix"},
 {"name": "E6-sched", "path": "harness/src/sched", "serves_properties": ["C09", "C10", "C11", "C12"], "kind_free_text": "deterministic scheduler: real threads, one running at a time, scheduling points at instrumented lock requests (H3) and yield points (H4), writer-preferring FIFO lock model, deadlock = no enabled program"},
 {"name": "E4-compute", "path": "harness/src/compute", "serves_properties": ["C06", "C19"], "kind_free_text": "EagerVec method table over a generated world of stored sources, source histories (grow / truncate+regrow), from-scratch differential and closed-formula references, batch-limit override (H6)"},
 {"name": "E1-rawmodel", "path": "harness/src/rawmodel", "serves_properties": ["C01", "C02", "C13", "C05", "C12", "C10"], "kind_free_text": "rawdb op language + byte-vector reference model + extent invariants, driven by proptest"},
]
manifest = {
 "version": 1,
 "setup_cmd": "./check --setup",
 "hooks": {
   "guard": "verif (cargo feature on rawdb and vecdb; vecdb/verif enables rawdb/verif)",
   "enable": "harness/Cargo.toml depends on /repo/crates/{rawdb,vecdb} by path with features=[\"verif\",...]; no workspace member enables it",
   "baseline_off_cmd": "cd /repo && cargo test --workspace --no-fail-fast --offline",
   "source_commits": hook_commits(),
   "add_only": True,
 },
 "engines": ENGINES,
 "checks": checks,
 "not_applicable": na,
 "notes": "All checks are property-based tests / fuzzing (proptest 1.11 driven from the vcheck binary, fixed seed = f(VERIF_SEED, property, worker)). Exit 0 = held on everything explored, 1 = VIOLATION line, 2 = inconclusive (build failure / watchdog). Known findings: known_findings.json.",
}
json.dump(manifest, open(os.path.join(ROOT, "MANIFEST.json"), "w"), indent=1)
print("MANIFEST.json:", len(checks), "checks,", len(na), "not_applicable")
