#!/bin/sh
# Confirms a seeded change in a scratch worktree (never /repo):
#   seed_confirm.sh <worktree> <dir with patch.diff + demo.rs> <crate> [cargo feature args]
# prints: suite_with=<rc> demo_with=<rc> demo_without=<rc>   (wanted: 0, non-zero, 0)
wt="$1"; d="$2"; crate="$3"; shift 3
export CARGO_NET_OFFLINE=true
cd "$wt" || exit 2
git checkout -q -- . && git clean -fdq crates
git apply "$d/patch.diff" || { echo "patch does not apply"; exit 2; }
cargo test --workspace --no-fail-fast --offline >"$d/confirm_suite_with.log" 2>&1; s=$?
# the repository's timing-dependent stress test fails on unchanged code under load: when it is the ONLY failure, re-run its binary (up to 3 times)
if [ $s -ne 0 ] && [ "$(grep -c '^test [A-Za-z_:0-9]* \.\.\. FAILED' "$d/confirm_suite_with.log")" = "1" ] && grep -q '^test test_length_data_consistency_stress ... FAILED' "$d/confirm_suite_with.log"; then
    for k in 1 2 3; do
        if cargo test -p vecdb --offline --test concurrent_rw >"$d/confirm_suite_with_retry.log" 2>&1; then s=0; echo "(stress test passed on retry $k)"; break; fi
    done
fi
cp "$d/demo.rs" "crates/$crate/tests/seed_demo.rs"
cargo test -p "$crate" --offline "$@" --test seed_demo >"$d/confirm_demo_with.log" 2>&1; w=$?
git apply -R "$d/patch.diff"
cargo test -p "$crate" --offline "$@" --test seed_demo >"$d/confirm_demo_without.log" 2>&1; o=$?
rm -f "crates/$crate/tests/seed_demo.rs"
git checkout -q -- . && git clean -fdq crates
echo "$(basename "$(dirname "$d")")/$(basename "$d") suite_with=$s demo_with=$w demo_without=$o"
