#!/bin/sh
# Re-runs every claimed quick check the way the interface does (fresh evidence file,
# VERIF_SEED=1 VERIF_TIER=quick) so that the committed evidence describes a quick run.
cd "$(dirname "$0")/.." || exit 2
export VERIF_SEED=1 VERIF_TIER=quick CARGO_NET_OFFLINE=true
rc=0
for id in $(jq -r '.checks[].property_id' MANIFEST.json); do
    rm -f "evidence/$id.json"
    cmd=$(jq -r --arg id "$id" '.checks[] | select(.property_id==$id) | .quick_cmd' MANIFEST.json)
    sh -c "$cmd" >".probe.$id.log" 2>&1; c=$?
    tail -n 1 ".probe.$id.log"
    if [ $c -ne 0 ] || grep -q '^VIOLATION' ".probe.$id.log" || [ ! -s "evidence/$id.json" ]; then
        echo "  -> NOT QUIET: exit=$c (see .probe.$id.log)"; rc=1
    else
        rm -f ".probe.$id.log"
    fi
done
exit $rc
