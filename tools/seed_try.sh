#!/bin/sh
# Runs quick checks against a seeded change applied to /repo's working tree, then undoes it.
#   seed_try.sh <patch.diff> <ID> [<ID>...]        (VERIF_CASES / VERIF_SEED honoured)
patch="$1"; shift
cd /repo || exit 2
[ -z "$(git status --porcelain -- crates)" ] || { echo "/repo not clean"; exit 2; }
git apply "$patch" || { echo "patch does not apply"; exit 2; }
for id in "$@"; do
    out=$(cd /verif && ./check "$id" quick 2>&1); rc=$?
    echo "== $id exit=$rc"
    echo "$out" | grep -E "^(violation:|VIOLATION|C[0-9]+ quick)" | cut -c1-400 | head -8
done
git -C /repo checkout -- .
rm -f /verif/replays/C[0-9]*-*.json
