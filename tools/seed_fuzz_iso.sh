#!/bin/sh
# Sensitivity of the libFuzzer part of C17's thorough tier alone (no proptest) against a seeded
# change, isolated like seed_try_iso.sh.   seed_fuzz_iso.sh <patch.diff> [runs]
patch="$(readlink -f "$1")"; runs="${2:-300000}"
base="/tmp/seedrun/f$$"
mkdir -p "$base" || exit 2
trap 'git -C /repo worktree remove --force "$base/repo" >/dev/null 2>&1; rm -rf "$base"' EXIT
git -C /repo worktree add --detach "$base/repo" HEAD >/dev/null 2>&1 || exit 2
git -C "$base/repo" apply "$patch" || { echo "patch does not apply"; exit 2; }
rsync -a --exclude target --exclude .git --exclude seeded /verif/ "$base/verif/"
sed -i "s#/repo/crates#$base/repo/crates#g" "$base/verif/harness/Cargo.toml"
cd "$base/verif" || exit 2
( cd harness && cargo build --release --offline >../.b.log 2>&1 ) || { tail .b.log; exit 2; }
( cd harness && cargo +nightly fuzz build --fuzz-dir ../fuzz codec >../.fuzz-build.log 2>&1 ) || { tail .fuzz-build.log; exit 2; }
bin=$(ls fuzz/target/*/release/codec | head -n 1)
rm -rf fuzz/corpus/codec fuzz/artifacts/codec; mkdir -p fuzz/corpus/codec fuzz/artifacts/codec
./harness/target/release/vcheck --dump-c17-seeds fuzz/corpus/codec >/dev/null
"$bin" fuzz/corpus/codec -artifact_prefix=fuzz/artifacts/codec/ -runs="$runs" -seed="${VERIF_SEED:-1}" -len_control=0 -max_len=6000 -print_final_stats=1 >.fuzz-run.log 2>&1
echo "libfuzzer exit=$?  execs=$(grep -m1 number_of_executed_units .fuzz-run.log | awk '{print $2}')"
grep -m2 "C17 oracle\|panicked" .fuzz-run.log | cut -c1-300
