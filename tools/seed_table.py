#!/usr/bin/env python3
"""Regenerates DESIGN.md section 9 (seeded changes table) from seeded/*/meta.json."""
import json, glob, os
ROOT = os.path.dirname(os.path.dirname(os.path.abspath(__file__)))
rows = []
for d in sorted(glob.glob(os.path.join(ROOT, 'seeded/*/meta.json'))):
    m = json.load(open(d))
    caught = [k for k, v in m['checks_run'].items() if v.startswith('caught')]
    missed = [k for k, v in m['checks_run'].items() if v.startswith('not caught')]
    late = [k for k, v in m['checks_run'].items() if 'after' in v and v.startswith('caught')]
    rows.append((m['id'], m['change'], ", ".join(caught), ", ".join(missed),
                 "; ".join(f"{k}: {m['checks_run'][k].split('(')[0].replace('caught after ', '').strip()}" for k in late)))
HEAD = open(os.path.join(ROOT, 'tools/seed_table_head.md')).read()
TAIL = open(os.path.join(ROOT, 'tools/seed_table_tail.md')).read()
out = [HEAD.rstrip(), "", "| seeded change | what it does | caught by | not caught by | check strengthened because it was missed |", "|---|---|---|---|---|"]
for r in rows:
    out.append("| " + " | ".join(x.replace("|", "/") if x else "-" for x in r) + " |")
out += ["", TAIL.rstrip(), ""]
p = os.path.join(ROOT, 'DESIGN.md'); s = open(p).read()
if "## 9. Seeded changes" in s:
    s = s[:s.index("## 9. Seeded changes")]
    s = s.rstrip()
    if s.endswith("-" * 75):
        s = s[:-75].rstrip()
s = s + "\n\n" + "-" * 75 + "\n\n" + "\n".join(out)
open(p, 'w').write(s)
print(len(rows), "rows")
