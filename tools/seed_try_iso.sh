#!/bin/sh
# Runs quick checks against a seeded change WITHOUT touching /repo or /verif: a scratch worktree of
# /repo with the patch applied plus a copy of /verif whose harness points at that worktree.
#   seed_try_iso.sh <patch.diff> <ID> [<ID>...]        (VERIF_CASES / VERIF_SEED honoured)
patch="$(readlink -f "$1")"; shift
base="/tmp/seedrun/$$"
mkdir -p "$base" || exit 2
trap 'git -C /repo worktree remove --force "$base/repo" >/dev/null 2>&1; rm -rf "$base"' EXIT
git -C /repo worktree add --detach "$base/repo" HEAD >/dev/null 2>&1 || exit 2
git -C "$base/repo" apply "$patch" || { echo "patch does not apply"; exit 2; }
rsync -a --exclude target --exclude .git --exclude seeded /verif/ "$base/verif/"
sed -i "s#/repo/crates#$base/repo/crates#g" "$base/verif/harness/Cargo.toml"
cp -r /verif/harness/target "$base/verif/harness/target" 2>/dev/null
cd "$base/verif" || exit 2
for id in "$@"; do
    out=$(./check "$id" quick 2>&1); rc=$?
    echo "== $id exit=$rc"
    echo "$out" | grep -E "^(violation:|VIOLATION|C[0-9]+ quick|error|harness build)" | cut -c1-400 | head -8
done
